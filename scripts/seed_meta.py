#!/usr/bin/env python3
"""Write seeded/<name>/meta.json from confirm.json (what was run, results) + the hand-written description below."""
import json, os
V = os.path.dirname(os.path.dirname(os.path.abspath(__file__)))
DESC = {
 "C01-no-pad-block-at-chunk-multiple": ("C01", "refactor of iobuffer::load_buffer that also looks ahead on encrypt and merges the two end-of-input branches: a plaintext whose length is an exact non-zero multiple of the chunk gets no PKCS#7 block",
   "|P| = k*chunk (k >= 1) AND last plaintext byte in 0x01..0x10 (then decrypt strips real bytes; otherwise only the file is 16 bytes short)"),
 "C03-early-handback-before-last-block": ("C03", "worker hands its buffer back (READY->UPDATING) as soon as it has been given the last block of a non-final chunk, before transforming it",
   "an input with at least one full non-final chunk AND the I/O thread flushing (or refilling) the buffer between the hand-back and the end of runcry on that last block: a particular interleaving"),
 "C04-lockfree-set-update-lost-wakeup": ("C04", "bufferctrl::state made atomic and set_update() no longer takes the mutex: state change + notify can fall between the I/O thread's predicate check and its wait",
   "the I/O thread must be between the check and the wait of wait_update() for buffer k exactly when worker k hands the buffer back (window of a few ns): lost wake-up, both sides sleep forever"),
 "C13-wordwise-tag-compare-skips-tail": ("C13", "'constant-time' tag comparison 8 bytes at a time: the last length%8 bytes (4 for SHA-1) are never compared",
   "hash mode SHA-1 AND the process dying inside the final 20-byte tag write, 1..4 bytes before its end (4 of ~260 byte-granular crash points)"),
 "C14-lockfree-hot-path-first-fill": ("C14", "lock-free hot path in require_buffer_entry: the worker trusts now<total without waiting for READY; only the slow path waits",
   "a worker's first look must fall into the first fill of its own buffer, between the store of total and the publication (a few ns); later chunks are never affected"),
 "C15-pooled-buffers-stale-isfinal": ("C15", "chunk buffers pooled across operations instead of being constructed per run: isfinal is never cleared again",
   "an earlier successful operation in the same process (with >= as many threads), then a decrypt of more than one chunk whose affected non-final chunk ends in a byte 0x01..0x10"),
 "C02-iv-table-offset-u8-wrap": ("C02", "IV-table offsets computed in u8_t ('replace the magic 20 by the digest length'): 20*i wraps at i = 13",
   "worker count T in 14..16 (API only; the CLI and all tests use T = 4); round trips still succeed"),
 "C05-strncmp-tag-compare": ("C05", "tag comparison with strncmp instead of a byte loop: stops at the first position where both tags have 0x00",
   "a forged file whose stored tag has 0x00 where the recomputed HMAC also has 0x00 with all earlier bytes equal (e.g. tag byte 0 := 0 and ~1 in 256 body variations)"),
 "C06-tag-diff-sum-mod-256": ("C06", "'constant-time' tag comparison that sums the byte differences and returns the sum as u8_t: tags compare equal whenever the sum is a multiple of 256",
   "a particular wrong key: about 1 in 256 wrong keys is accepted (which ones depends on key, file, IV, hash mode)"),
 "C11-mode-range-check-signed-char": ("C11", "mode-range check of the header bytes reuses the Settings helpers that take char and tolerate -1: byte 0xFF passes",
   "magic ok, file >= 74 bytes and hash-mode byte (offset 9) exactly 0xFF: NULL hasher, SIGSEGV in verify and decrypt"),
 "C12-decrypt-reports-bad-padding": ("C12", "decrypt reports an invalid final padding as failure (result 5) - a second way to fail that verify does not share",
   "a file whose unauthenticated cipher-mode byte was rewritten to another valid mode (or any authentic file with bad padding): verify passes, decrypt fails"),
 "C07-string-hash-length-32bit-shift": ("C07", "length bookkeeping moved out of the compression functions; the in-memory entry point computes `length << 3` in 32 bits",
   "getStringHash with a message of 2^29 bytes or more (any algorithm); the streamed entry point and all shorter messages are unaffected"),
 "C08-filebuffer-early-eof-at-full-buffer": ("C08", "file hashing buffer returns 0 ('end of file') when a completely filled buffer has been consumed and tail == 0, before trying to refill",
   "a hashed range longer than the refill size (32 MiB in production, refill*64 bytes in the hooked build): the tag covers only the first buffer-full"),
 "C09-key-strncpy-truncates-at-nul": ("C09", "key schedule copies the key with strncpy: everything after the first 0x00 key byte is zeroed",
   "a key with a 0x00 byte at index 0..14 followed by a non-zero byte (5.7% of random keys, never an ASCII key); encrypt/decrypt still invert each other"),
 "C10-ctr-carry-into-wrong-byte": ("C10", "CTR increment done as two 64-bit words; the carry into the high word is added without the byte swap (iv[0] instead of iv[7])",
   "CTR mode and the low 64 counter bits wrapping inside the stream (IV with >= 8 trailing 0xFF bytes, but not all 16)"),
 "C16-decoder-writes-full-last-group": ("C16", "decoder treats '=' as a zero sextet and flushes the padded last group through the normal 3-byte path",
   "any padded input: 1-2 extra zero bytes behind the decoded data (18 bytes into the 16-byte key buffer); invisible unless the byte behind the buffer matters (canary, ASan, neighbouring object)"),
 "C17-mode-number-narrowed-before-check": ("C17", "--cmode/--hmode parsing folded into a helper that stores atoi() into the char field before the range check",
   "an out-of-range mode number whose low byte is a valid mode (256..260, 512, -252, -256 ...): accepted, exit 0"),
 "C18-seed-length-u8-wrap": ("C18", "seed length bounded with strnlen(.,256) but stored in a u8_t: 256 wraps to 0",
   "a seed of 256 or more non-NUL bytes (about 37% of CLI runs, never for short seeds): every header IV becomes the SHA-1 chain of the empty string"),
}
for name, (prop, what, needs) in DESC.items():
    d = os.path.join(V, "seeded", name)
    cf = os.path.join(d, "confirm.json")
    if not os.path.exists(cf):
        continue
    c = json.load(open(cf))
    meta = {
        "breaks_property": prop,
        "origin": "fresh sub-agent given only the text of the property and its own scratch worktree (nothing from /verif)" + (" plus the note that the already-known finding of this property must not be reused" if prop in ("C05", "C18") else ""),
        "change": what,
        "needs_to_manifest": needs,
        "confirmed_by_me": {
            "patch_applies_on_HEAD": c["patch_applies"],
            "builds_and_stable_tests_with_change": c["stable_tests_with_change"],
            "demonstration_exit_with_change": c["demo_with_change_exit"],
            "demonstration_exit_without_change": c["demo_without_change_exit"],
            "demonstration_last_lines_with_change": c["demo_with_change_tail"],
        },
        "what_i_ran": c["ran"] + ["the agent's demonstration (see notes.md for the command) with and without the change, in the scratch worktree"],
        "detected_by_quick_checks": {p: {"detected": r["detected"], "wall_s": r["wall_s"], "what": r["what"]} for p, r in c["checks"].items()},
        "confirmed": c["confirmed"],
    }
    json.dump(meta, open(os.path.join(d, "meta.json"), "w"), indent=1)
    print(name, "confirmed" if c["confirmed"] else "NOT CONFIRMED", {p: r["detected"] for p, r in c["checks"].items()})
