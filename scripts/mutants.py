#!/usr/bin/env python3
"""Sensitivity testing: apply deliberately broken variants of /repo (one at a time, in /repo's working
tree, reverted afterwards with `git checkout -- .`), run the quick tier of the checks that should notice,
and record which check caught which change. Usage: mutants.py [name-substring ...]
Results: seeded/_own/RESULTS.json (+ one .diff per mutant)."""
import subprocess, sys, os, json, time, re

V = os.path.dirname(os.path.dirname(os.path.abspath(__file__)))
# the tree to mutate: a scratch copy (VP_RUN_REPO inside `vp run --with-repo`, or WENCRY_REPO), never /repo itself
REPO = os.environ.get("VP_RUN_REPO") or os.environ.get("WENCRY_REPO") or "/repo"
BG = "kernel/multi_aes/multi_buffergroup.cpp"
M = []


def mut(name, props, *edits, note=""):
    M.append({"name": name, "props": props, "edits": edits, "note": note})


# ---- C01 / C04 / C12
mut("revert_D2_eof_peek", ["C01", "C04", "C12"], (BG, "  if ((!ispadding) && (load == sum) && (!readover))\n", "  if (false && (!ispadding) && (load == sum) && (!readover))\n"))
mut("no_pad_block_when_len_multiple_of_16", ["C01", "C02"], (BG, "    memset(b[total++] + tail, padding, padding);\n", "    if (tail != 0 || load == 0)\n      memset(b[total++] + tail, padding, padding);\n"))
mut("decrypt_never_strips_padding", ["C01"], (BG, "      if (padding < 1 || padding > 16)\n", "      if (padding < 1 || padding >= 16)\n"), note="a full block of padding (plaintext length multiple of 16) is not stripped")
# ---- C02
mut("iv_chain_md5", ["C02", "C18"], ("kernel/fheader.cpp", "    Hashmaster *hm = hf.getHasher(HashFactory::SHA1);\n    hm->getStringHash(r_buf,", "    Hashmaster *hm = hf.getHasher(HashFactory::SHA256);\n    hm->getStringHash(r_buf,"), note="IV chain hashed with SHA-256 (first 20 bytes kept by the next memcpy-free code path)")
mut("tag_offset_11", ["C02", "C08"], ("kernel/cry.h", "#define FILE_HMAC_MARK 10", "#define FILE_HMAC_MARK 11"))
mut("magic_changed", ["C02"], ("kernel/fheader.h", "0xA5C3A5C3A5C3A5C3", "0xA5C3A5C3A5C3A5C4"))
mut("pad_value_wrong_for_full_block", ["C02", "C01"], (BG, "    u8_t padding = 16 - tail;\n", "    u8_t padding = 16 - tail;\n    if (tail == 0 && load != 0) padding = 16, tail = 0;\n"), note="no-op control mutant (must NOT be flagged)")
mut("tag_padding_nonzero", ["C02", "C08"], ("kernel/fheader.cpp", "    memset(padding, 0, sizeof(padding));", "    memset(padding, 0, sizeof(padding));\n    padding[PADDING - 1] = ctype;"), note="last byte before offset 48 carries the cipher mode")
# ---- C03 / C14 / C04
mut("revert_D1_wait_before_look", ["C03", "C04", "C14", "C01"], (BG, "  ctrl[id].wait_ready();\n  WV_POINT(WVP_WORKER_STATE, &ctrl[id]);\n  if (!ctrl[id].cmpstate(READY))\n    return NULL;\n  WV_POINT(WVP_GET_ENTRY, &buflst[id]);\n  u8_t *result = buflst[id].get_entry();\n  WV_EVENT(WVE_TAKE, result, id, 0);", "  WV_POINT(WVP_GET_ENTRY, &buflst[id]);\n  u8_t *result = buflst[id].get_entry();\n  WV_EVENT(WVE_TAKE, result, id, 0);"))
mut("wait_ready_if_instead_of_while", ["C03", "C04", "C14"], (BG, "  while (state != READY && state != INV)\n    cv_ready.wait(locker);", "  if (state != READY && state != INV)\n    cv_ready.wait(locker);"), note="needs a spurious wake-up")
mut("wait_update_if_instead_of_while", ["C03", "C04", "C14"], (BG, "  while (state != UPDATING && state != EMPTY)\n    cv_update.wait(locker);", "  if (state != UPDATING && state != EMPTY)\n    cv_update.wait(locker);"), note="needs a spurious wake-up")
mut("set_update_without_ready_test", ["C03", "C04", "C14"], (BG, "  if (state == READY)\n  {\n    state = UPDATING;", "  if (state == READY || state == EMPTY)\n  {\n    state = UPDATING;"))
mut("io_thread_does_not_wait_for_handback", ["C03", "C14", "C04"], (BG, "  while (state != UPDATING && state != EMPTY)\n    cv_update.wait(locker);", "  while (state != UPDATING && state != EMPTY && state != READY)\n    cv_update.wait(locker);"))
mut("notify_before_state_change_outside_lock", ["C04", "C03"], (BG, "  std::unique_lock<std::mutex> locker(lock);\n  if (state == READY)\n  {\n    state = UPDATING;\n    WV_EVENT(WVE_STATE, this, state, 1);\n    cv_update.notify_all();\n  }\n  locker.unlock();", "  if (state == READY)\n  {\n    state = UPDATING;\n    WV_EVENT(WVE_STATE, this, state, 1);\n    cv_update.notify_all();\n  }"), note="set_update without taking the lock: lost wake-up window between the I/O thread's test and its wait")
# ---- C04
mut("drop_cv_update_notify", ["C04", "C03"], (BG, "    WV_EVENT(WVE_STATE, this, state, 1);\n    cv_update.notify_all();", "    WV_EVENT(WVE_STATE, this, state, 1);"))
mut("drop_live_num_decrement", ["C04", "C15"], (BG, "    state = INV;\n    live_num--;", "    state = INV;"))
mut("turn_iter_without_inv_skip", ["C04", "C03"], (BG, "  while (ctrl[turn].cmpstate(INV));", "  while (false);"))
mut("notify_one_on_ready", ["C04"], (BG, "  WV_EVENT(WVE_STATE, this, state, 0);\n  cv_ready.notify_all();", "  WV_EVENT(WVE_STATE, this, state, 0);\n  cv_ready.notify_one();"), note="control: one waiter per cv, notify_one is equivalent (must NOT be flagged)")
# ---- C05
mut("hmac_excludes_iv_area", ["C05", "C02", "C08"], ("kernel/cry.cpp", "  fseek(fin, FILE_IV_MARK, SEEK_SET);\n  if (!hmachandle.cmphmac", "  fseek(fin, FILE_TEXT_MARK(threads_num), SEEK_SET);\n  if (!hmachandle.cmphmac"), ("kernel/cry.cpp", "hmachandle.writeFileHmac(settings.get_htype(), out, key, FILE_IV_MARK, FILE_HMAC_MARK, fsize);", "hmachandle.writeFileHmac(settings.get_htype(), out, key, FILE_TEXT_MARK(threads_num), FILE_HMAC_MARK, fsize);"))
mut("skip_tag_check_for_large_files", ["C05", "C06", "C11"], ("kernel/cry.cpp", "  if (!hmachandle.cmphmac(header.gethtype(), key, fin, hash, fsize))\n    return 2;", "  if (fsize < 300 && !hmachandle.cmphmac(header.gethtype(), key, fin, hash, fsize))\n    return 2;"))
# ---- C06
mut("hmac_key_not_used", ["C06", "C02", "C08"], ("kernel/fheader.cpp", "    memcpy(key1, key, 16);\n", "    memcpy(key1, key, 0);\n"))
mut("cmphmac_skips_last_byte", ["C08", "C05"], ("kernel/fheader.cpp", "    for (int i = 0; i < length; ++i)\n        if (hmac_out[i] != hmac_res[i])", "    for (int i = 0; i < length - 1; ++i)\n        if (hmac_out[i] != hmac_res[i])"))
mut("hmac_key_only_15_bytes", ["C06", "C08", "C02"], ("kernel/fheader.cpp", "    memcpy(key1, key, 16);\n", "    memcpy(key1, key, 15);\n"), note="last key byte not authenticated: wrong keys differing only there pass the tag check")
# ---- C07
mut("revert_D3_len_after_extra_block", ["C07", "C08", "C02"], ("kernel/hash/sha1.cpp", "const u64_t msgbits = totalsize;", "#define msgbits totalsize"), ("kernel/hash/md5.cpp", "const u64_t msgbits = totalsize;", "#define msgbits totalsize"), ("kernel/hash/sha256.cpp", "const u64_t msgbits = totalsize;", "#define msgbits totalsize"))
mut("hash_counter_32bit", ["C07"], ("kernel/hash/hashmaster.h", "  u64_t totalsize;", "  u32_t totalsize;"))
mut("pad_threshold_55", ["C07", "C08"], ("kernel/hash/sha256.cpp", "  if (final_loadsize >= 56)", "  if (final_loadsize > 56)"))
mut("filebuffer_refill_drops_tail", ["C07", "C08"], ("kernel/hash/hashbuffer.cpp", "    tail = sum & 0x3f;\n    total = sum >> 6;\n    now = 0;", "    tail = 0;\n    total = sum >> 6;\n    now = 0;"))
mut("md5_length_big_endian_high_word", ["C07"], ("kernel/hash/md5.cpp", "temp[56 + i] = (u8_t)((msgbits >> (i << 3)));", "temp[56 + i] = (u8_t)(((u32_t)msgbits >> (i << 3)));"), note="UB shift >= 32 for i >= 4; differs only for >= 2^29-byte messages")
# ---- C08
mut("ipad_opad_swapped", ["C08", "C02"], ("kernel/fheader.h", "ipad = 0x36, opad = 0x5c", "ipad = 0x5c, opad = 0x36"))
mut("cmphmac_only_4_bytes", ["C08", "C05"], ("kernel/fheader.cpp", "    for (int i = 0; i < length; ++i)\n        if (hmac_out[i] != hmac_res[i])", "    for (int i = 0; i < 4; ++i)\n        if (hmac_out[i] != hmac_res[i])"))
# ---- C09
mut("alogtable_entry", ["C09", "C10", "C02"], ("kernel/multi_aes/aes/tab.h", None, None), note="one Alogtable entry changed (applied by the script below)")
mut("rc_9", ["C09"], ("kernel/multi_aes/aes/tab.h", "0x20, 0x40, 0x80, 0x1B, 0x36};", "0x20, 0x40, 0x80, 0x1B, 0x6C};"))
# ---- C10
mut("ctr_inc_only_last_byte", ["C10"], ("kernel/multi_aes/aes/aesmode.cpp", "      iv[i]++;\n      if (iv[i] != 0)\n        break;", "      iv[i]++;\n      break;"))
mut("ctr_inc_stops_at_byte_8", ["C10"], ("kernel/multi_aes/aes/aesmode.cpp", "    for (int i = 15; i >= 0; i--)\n    {\n      iv[i]++;", "    for (int i = 15; i >= 8; i--)\n    {\n      iv[i]++;"), note="64-bit counter: differs only when the low 8 bytes are all 0xFF")
mut("cfb_dec_feeds_plaintext", ["C10", "C01"], ("kernel/multi_aes/aes/aesmode.cpp", "    crypt.runaes_128bit(iv);\n    getXor(block, iv);\n    memcpy(iv, nxt_iv, 16);", "    crypt.runaes_128bit(iv);\n    getXor(block, iv);\n    memcpy(iv, block, 16);"))
mut("factory_shares_iv_pointer_state", ["C10"], ("kernel/multi_aes/aes/aesmode.h", "    memcpy(this->initiv, iv, 16);\n    memcpy(this->iv, this->initiv, 16);", "    memcpy(this->initiv, iv, 16);\n    memcpy(this->iv, this->initiv, 16);\n    ((u8_t *)iv)[19] ^= 1;"), note="control: touches only byte 19 of the 20-byte IV slot (unused) - must NOT be flagged by C10; C02 sees header IV change")
# ---- C11
mut("revert_D5_mode_range", ["C11", "C12"], ("kernel/cry.cpp", "  if (AesFactory::getName(header.getctype()) == \"Unknown\" || HashFactory::getType(header.gethtype()) == HashFactory::Unknown)\n    return 3;\n", ""))
mut("revert_D6_pad_range", ["C11"], (BG, "      if (padding < 1 || padding > 16)\n        padding = 0;\n", ""))
mut("short_file_check_off_by_a_lot", ["C11", "C12"], ("kernel/fheader.cpp", "    if (sum != len)\n        return NULL;\n    return hash;", "    if (sum == 0)\n        return NULL;\n    return hash;"), note="files shorter than 74 bytes are no longer rejected as too short")
# ---- C12
mut("decrypt_only_length_check", ["C12"], ("kernel/cry.cpp", "  int res = verify(fsize);\n  resultprint->resetPercentage();\n  TIMER_END(Verify_Time);\n  if (res == 0)\n  {\n    // 准备初始化\n    resultprint->printtask(\"Preparing decrypt\");", "  int res = verify(fsize);\n  if (res == 0 && (fsize - FILE_TEXT_MARK(threads_num)) % 16 != 0)\n    res = 1;\n  resultprint->resetPercentage();\n  TIMER_END(Verify_Time);\n  if (res == 0)\n  {\n    // 准备初始化\n    resultprint->printtask(\"Preparing decrypt\");"), note="only files outside the domain differ (valid tag, body not multiple of 16): expected NOT flagged")
mut("verify_writes_report_byte", ["C12"], ("kernel/cry.cpp", "  resultprint->printresv(res); // 打印结果\n  over();                      // 关闭文件\n  TIMER_END(Total_Time);       // 打印时间\n  return res == 0;\n}\n\n\n", "  resultprint->printresv(res); // 打印结果\n  if (out != NULL)\n    fputc(res, out);\n  over();                      // 关闭文件\n  TIMER_END(Total_Time);       // 打印时间\n  return res == 0;\n}\n\n\n"))
mut("decrypt_rejects_magic_only_after_tag", ["C12"], ("kernel/cry.cpp", "  if (fin == NULL)\n    return resultprint->printinv(0);\n  TIMER_START(Total_Time);\n  // 验证文件\n  TIMER_START(Verify_Time);\n  int res = verify(fsize);\n  resultprint->resetPercentage();\n  TIMER_END(Verify_Time);\n  resultprint->printresv(res);", "  if (fin == NULL)\n    return resultprint->printinv(0);\n  TIMER_START(Total_Time);\n  // 验证文件\n  TIMER_START(Verify_Time);\n  int res = verify(fsize);\n  if (res == 2 && fsize > 400)\n    res = 0;\n  resultprint->resetPercentage();\n  TIMER_END(Verify_Time);\n  resultprint->printresv(res);"), note="verify (only) accepts large files with a bad tag")
# ---- C13
mut("tag_written_before_body", ["C13"], ("kernel/cry.cpp", "  u8_t *iv = prepare_IV(r_buf);\n  Aesmode **mode = prepare_AES(settings.get_ctype(), iv, true);", "  u8_t *iv = prepare_IV(r_buf);\n  fflush(out);\n  hmachandle.writeFileHmac(settings.get_htype(), out, key, FILE_IV_MARK, FILE_HMAC_MARK, fsize);\n  fseek(out, 0, SEEK_END);\n  Aesmode **mode = prepare_AES(settings.get_ctype(), iv, true);"), note="a valid tag for the header-only file exists while the body is being written")
# ---- C15
mut("no_del_instance_after_decrypt", ["C15"], ("kernel/cry.cpp", "    resultprint->printtask(\"Releasing allocated memory\");\n    buffergroup::del_instance();\n    release(iv, mode);", "    resultprint->printtask(\"Releasing allocated memory\");\n    release(iv, mode);"))
mut("over_flag_static", ["C15"], ("kernel/multi_aes/multi_buffergroup.h", "  buffergroup() : buflst(NULL), ctrl(NULL), turn(0), over(false) {};", "  buffergroup() : buflst(NULL), ctrl(NULL), turn(0) {};"), (BG, "  loadstate_t loadstate = NODATA;\n", "  static bool over = false;\n  loadstate_t loadstate = NODATA;\n"), note="`over` becomes a function-local static that survives the instance")
# ---- C16
mut("revert_D7_two_eq", ["C16", "C17"], ("valget/base64/base64.cpp", "    return tail == 2;", "    return true;"))
mut("b64_nul_dropped_for_multiple_of_3", ["C16"], ("valget/base64/base64.cpp", "  base64_out[idx] = '\\0';", "  if (j != 0)\n    base64_out[idx] = '\\0';"))
mut("validator_accepts_dash_underscore", ["C16", "C17"], ("valget/base64/base64.cpp", "    return std::isalnum(c) || c == '+' || c == '/';", "    return std::isalnum(c) || c == '+' || c == '/' || c == '-' || c == '_';"))
# ---- C17
mut("exit_code_always_zero", ["C17"], ("main.cpp", "  return flag ? 0 : -1;", "  return flag ? 0 : 0;"))
mut("revert_D8_missing_args", ["C17"], ("valget/getopts.cpp", "    else if (res->mode == 'd' || res->mode == 'v')\n    {\n        if (res->fp == NULL)", "    else if (false)\n    {\n        if (res->fp == NULL)"))
mut("revert_D8_range", ["C17"], ("valget/getopts.cpp", "            if (!check_ctype(tnum))\n            {", "            if (false)\n            {"))
mut("fout_truncated_at_255", ["C17"], ("valget/getopts.cpp", "        fout = std::string(optarg) + \".wenc\";", "        fout = std::string(optarg).substr(0, 250) + \".wenc\";"), note="default output name of a long input path silently truncated: output lands in another file")
# ---- C18
mut("iv_ignores_seed", ["C18", "C02"], ("kernel/fheader.cpp", "    hm->getStringHash(r_buf, strlen((const char *)r_buf), iv);", "    hm->getStringHash(r_buf, 0, iv);"))
mut("iv_slots_all_equal", ["C18", "C02"], ("kernel/fheader.cpp", "        hm->getStringHash(iv + (20 * (i - 1)), 20, iv + (20 * i));", "        memcpy(iv + (20 * i), iv, 20);"))


SAVED = {}


def restore():
    for p, content in SAVED.items():
        open(p, "w", encoding="utf-8").write(content)
    SAVED.clear()


def apply(m):
    for e in m["edits"]:
        f, old, new = e
        p = os.path.join(REPO, f)
        s = open(p, encoding="utf-8").read()
        SAVED.setdefault(p, s)
        if old is None:  # special: Alogtable entry
            idx = s.index("const u8_t Alogtable[512]")
            body_start = s.index("{", idx) + 1
            # change the 200th entry
            parts = s[body_start:s.index("}", body_start)].split(",")
            parts[200] = parts[200].replace(parts[200].strip(), "0x%02X" % ((int(parts[200].strip(), 16) ^ 0x40)))
            s = s[:body_start] + ",".join(parts) + s[s.index("}", body_start):]
        else:
            if s.count(old) != 1:
                raise RuntimeError("%s: pattern occurs %d times in %s" % (m["name"], s.count(old), f))
            s = s.replace(old, new)
        open(p, "w", encoding="utf-8").write(s)


def main():
    sel = sys.argv[1:]
    outdir = os.path.join(V, "seeded", "_own")
    os.makedirs(outdir, exist_ok=True)
    resf = os.path.join(outdir, "RESULTS.json")
    results = json.load(open(resf)) if os.path.exists(resf) else {}
    env = dict(os.environ)
    env["WENCRY_REPO"] = REPO
    print("mutating", REPO, flush=True)
    for m in M:
        if sel and not any(s in m["name"] for s in sel):
            continue
        try:
            apply(m)
            diff = ""
            for p, orig in SAVED.items():
                tmp = p + ".orig"
                open(tmp, "w", encoding="utf-8").write(orig)
                diff += subprocess.run(["diff", "-u", "--label", "a/" + os.path.relpath(p, REPO), "--label", "b/" + os.path.relpath(p, REPO), tmp, p], capture_output=True, text=True).stdout
                os.remove(tmp)
            open(os.path.join(outdir, m["name"] + ".diff"), "w").write(diff)
            r = {"note": m["note"], "checks": {}}
            for pid in m["props"]:
                t0 = time.time()
                p = subprocess.run([os.path.join(V, "check"), pid, "--tier", "quick"], capture_output=True, text=True, cwd=V, env=env)
                if p.returncode == 2:  # infrastructure hiccup (e.g. engine edited mid-run): one retry
                    time.sleep(30)
                    p = subprocess.run([os.path.join(V, "check"), pid, "--tier", "quick"], capture_output=True, text=True, cwd=V, env=env)
                what = ""
                mm = re.search(r"what: (.*)", p.stdout)
                if mm:
                    what = mm.group(1)[:200]
                r["checks"][pid] = {"exit": p.returncode, "detected": p.returncode == 1, "wall_s": round(time.time() - t0, 1), "what": what}
                print("%-45s %s exit=%d %.0fs %s" % (m["name"], pid, p.returncode, time.time() - t0, what[:110]), flush=True)
            results[m["name"]] = r
        finally:
            restore()
        json.dump(results, open(resf, "w"), indent=1)


if __name__ == "__main__":
    main()
