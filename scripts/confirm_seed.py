#!/usr/bin/env python3
"""Confirm a seeded change delivered by a sub-agent, in its scratch worktree:
   1. the patch applies, 2. the project builds and the 36 stable tests pass with it (guard off),
   3. the agent's demonstration fails with the change and passes without it;
   then run the listed checks against the patched worktree and store everything as /verif/seeded/<name>/.
Usage: confirm_seed.py <name> <worktree> <demo command (with {wt})> <prop> [<prop> ...]
"""
import sys, os, subprocess, json, shutil, time

V = os.path.dirname(os.path.dirname(os.path.abspath(__file__)))
name, wt, demo = sys.argv[1], sys.argv[2], sys.argv[3]
props = sys.argv[4:]
demo = demo.replace("{wt}", wt)
# "<cmd with>|||<cmd without>" for demonstrations that select the variant by an argument
demo_with, demo_without = (demo.split("|||") + [demo])[:2] if "|||" in demo else (demo, demo)
check = os.environ.get("VERIF_CHECK", os.path.join(V, "check"))


def sh(cmd, timeout=3600, env=None):
    e = dict(os.environ)
    if env:
        e.update(env)
    os.makedirs("/tmp/confirm_cwd", exist_ok=True)  # demos may drop files into the current directory
    p = subprocess.run(cmd, shell=True, capture_output=True, text=True, errors="replace", timeout=timeout, env=e, cwd="/tmp/confirm_cwd")
    return p.returncode, (p.stdout + p.stderr)


meta = {"name": name, "ran": []}
sh("git -C %s checkout -q -- ." % wt)
rc, out = sh("git -C %s apply %s/_seed/patch.diff" % (wt, wt))
meta["patch_applies"] = rc == 0
assert rc == 0, out
rc, out = sh("%s baseline" % check, env={"WENCRY_REPO": wt})
meta["stable_tests_with_change"] = out.strip().split("\n")[-1] if rc == 0 else "FAILED: " + out[-500:]
meta["ran"].append("WENCRY_REPO=%s ./check baseline   (cmake build with the guard off + the 36 stable tests) -> exit %d" % (wt, rc))
print("stable tests with change:", rc, meta["stable_tests_with_change"], flush=True)
rc1, out1 = sh(demo_with, timeout=1800)
meta["demo_with_change_exit"] = rc1
meta["demo_with_change_tail"] = out1.strip().split("\n")[-3:]
print("demo with change: exit", rc1, out1.strip().split("\n")[-1][:200], flush=True)
results = {}
for p in props:
    t0 = time.time()
    rc, out = sh("%s %s --tier quick" % (check, p), env={"WENCRY_REPO": wt})
    what = [l for l in out.split("\n") if l.startswith("  what:")]
    results[p] = {"exit": rc, "detected": rc == 1, "wall_s": round(time.time() - t0, 1), "what": what[0][8:300] if what else ""}
    meta["ran"].append("WENCRY_REPO=%s ./check %s --tier quick -> exit %d" % (wt, p, rc))
    print("check", p, "exit", rc, results[p]["what"][:150], flush=True)
sh("git -C %s checkout -q -- ." % wt)
rc2, out2 = sh(demo_without, timeout=1800)
meta["demo_without_change_exit"] = rc2
meta["demo_without_change_tail"] = out2.strip().split("\n")[-3:]
print("demo without change: exit", rc2, out2.strip().split("\n")[-1][:200], flush=True)
meta["checks"] = results
meta["confirmed"] = bool(meta["patch_applies"] and "36/36" in meta["stable_tests_with_change"] and rc1 != 0 and rc2 == 0)
dst = os.path.join(V, "seeded", name)
os.makedirs(dst, exist_ok=True)
for f in os.listdir(os.path.join(wt, "_seed")):
    src = os.path.join(wt, "_seed", f)
    if os.path.isfile(src) and os.path.getsize(src) < 200000:
        shutil.copy(src, dst)
json.dump(meta, open(os.path.join(dst, "confirm.json"), "w"), indent=1)
print("confirmed:", meta["confirmed"])
