#!/usr/bin/env python3
"""Replace the table of DESIGN.md section 12.1 by the output of seed_summary.py (seeded changes only)."""
import subprocess, os
V = os.path.dirname(os.path.dirname(os.path.abspath(__file__)))
p = os.path.join(V, "DESIGN.md")
s = open(p).read()
out = subprocess.run(["python3", os.path.join(V, "scripts", "seed_summary.py")], capture_output=True, text=True).stdout
tab = out.split("\n\n")[0].strip() + "\n"
a = s.index("| seeded change | breaks | what it is | needs to manifest | quick checks that report it |")
b = s.index("### 12.2 Changes that were first missed")
open(p, "w").write(s[:a] + tab + "\n" + s[b:])
print("rows:", tab.count("\n") - 2)
