#!/usr/bin/env python3
"""Summarise seeded/<name>/meta.json (+ own mutants RESULTS.json) as markdown tables."""
import json, os, glob
V = os.path.dirname(os.path.dirname(os.path.abspath(__file__)))
rows = []
for mp in sorted(glob.glob(os.path.join(V, "seeded", "C*", "meta.json"))):
    m = json.load(open(mp))
    name = os.path.basename(os.path.dirname(mp))
    det = ", ".join("%s%s" % (p, "" if r["detected"] else " (no)") for p, r in m["detected_by_quick_checks"].items())
    rows.append("| `%s` | %s | %s | %s | %s |" % (name, m["breaks_property"], m["change"], m["needs_to_manifest"], det))
print("| seeded change | breaks | what it is | needs to manifest | quick checks that report it |")
print("|---|---|---|---|---|")
print("\n".join(rows))
rp = os.path.join(V, "seeded", "_own", "RESULTS.json")
if os.path.exists(rp):
    r = json.load(open(rp))
    print()
    print("| own mutant | " + "detected by (quick tier) | not detected by | note |")
    print("|---|---|---|---|")
    for k, v in r.items():
        d = [p for p, c in v["checks"].items() if c["detected"]]
        n = [p for p, c in v["checks"].items() if not c["detected"]]
        print("| `%s` | %s | %s | %s |" % (k, ", ".join(d) or "-", ", ".join(n) or "-", v.get("note", "")))
