#!/bin/bash
# run every registered quick check once (evidence is rewritten); prints one line per property
cd "$(dirname "$0")/.."
./check setup 2>&1 | tail -1
for p in $(python3 -c "import json;print(' '.join(sorted(json.load(open('checks.json')).keys())))"); do
  s=$(date +%s); out=$(./check $p --tier ${1:-quick} 2>&1); rc=$?; e=$(date +%s)
  echo "$p exit=$rc $((e-s))s $(echo "$out" | grep -E '^OK|^VIOLATION|^KNOWN' | head -2 | cut -c1-160 | tr '\n' ' ')"
done
