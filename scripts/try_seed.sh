#!/bin/bash
# try_seed.sh <worktree-with-_seed/patch.diff> <prop>... : run the quick checks against the patched worktree
wt=$1; shift
git -C $wt checkout -q -- . ; git -C $wt apply $wt/_seed/patch.diff || exit 9
for p in "$@"; do
  WENCRY_REPO=$wt timeout 2400 $(dirname $0)/../check $p --tier quick 2>&1 | grep -E "^VIOLATION|what:|^OK|KNOWN|infra" | head -3 | cut -c1-300
done
git -C $wt checkout -q -- .
