#!/usr/bin/env python3
"""Print the prompt given to a fresh sub-agent for seeding a property-breaking change (property text only)."""
import json, sys
pid = sys.argv[1]
wt = "/tmp/wt_" + pid + (sys.argv[2] if len(sys.argv) > 2 else "")
p = [json.loads(l) for l in open("/verif/properties.jsonl") if json.loads(l)["id"] == pid][0]
conc = "schedules" in p["quantifier"]["over"]
import os
avoid = ""
ap = "/verif/seeded/_avoid/%s.txt" % pid
if len(sys.argv) > 2 and os.path.exists(ap):
    avoid = "\nOther people have already tried the following ideas for this property; yours must be a DIFFERENT one (a different mechanism, code site or trigger):\n" + open(ap).read()
print(f"""You are helping to evaluate a verification framework that you will not see. Work ONLY inside the git worktree {wt} (a checkout of the C++ project abj1210/wencry: a CLI file encryptor with hand-written AES-128 in five modes, SHA-1/MD5/SHA-256, HMAC, base64 and a multithreaded condition-variable based chunk-buffer pipeline). Do NOT read, list or touch /verif or /repo, and do not commit anything.

PROPERTY that the code is supposed to satisfy:
  Title: {p['title']}
  Statement: {p['statement']}
  Holds: {p['quantifier']['text']}

YOUR TASK: produce ONE source change (a patch to the library/program code under kernel/, valget/ or main.cpp - not to the tests) that makes this property FALSE, such that
  1. the project still compiles,
  2. the existing stable tests still pass (stable tests = the names in the "stable_pass" list of /root/.vp/BASELINE.json, written as "<ctest test name>::<gtest case>"; the remaining tests are flaky or failing on the unchanged code and do not matter),
  3. ordinary use would NOT expose it at once: it must need something specific to manifest - {'a particular interleaving of the worker threads and the I/O thread, ' if conc else ''}a crash or fault at a particular point, a multi-step sequence of operations, an unusual input (a particular length / residue / value), or two cooperating sites that each look fine alone.
{avoid}
Make it look like a plausible regression a maintainer could introduce (a refactor, an 'optimisation', a dropped check, an off-by-one, a wrong constant), not sabotage guarded by an unrelated magic number. Read the code first (README.md, kernel/, valget/, main.cpp, test/). Note: lines with WV_POINT / WV_EVENT / WENCRY_VERIF are inert instrumentation macros (no-ops in a normal build); leave them in place (you may move them along with the code they annotate).

Build and test (use a build dir inside the worktree, at most 4 parallel jobs):
  cmake -G Ninja -S {wt} -B {wt}/_b -DCMAKE_BUILD_TYPE=Release && cmake --build {wt}/_b -j4
  ctest --test-dir {wt}/_b -j4 --timeout 120

DELIVER in {wt}/_seed/ :
  - patch.diff : `git diff` of your change against HEAD (must apply with `git apply` on a clean checkout).
  - a demonstration: a small program or script (plus the exact build/run commands in notes.md) that FAILS (non-zero exit and a line starting with FAIL) with the change applied and PASSES (exit 0) without it. It may link against the project's libraries or compile the sources directly. {'To force the interleaving it may use an extra demo-only patch (e.g. delay.diff adding sleeps / yields at chosen points) applied in BOTH the with-change and without-change runs, to show that the delays alone are harmless; your patch.diff itself must not contain sleeps.' if conc else ''}
  - notes.md : what the change is, why it breaks the property, exactly what it needs in order to manifest, and the commands you ran with their results (including the stable-test results with the change applied).
Confirm yourself that: with the change the stable tests pass and the demonstration fails; without the change the demonstration passes. At the end leave the worktree with your change NOT applied (`git -C {wt} checkout -- .`), keep {wt}/_seed/, and delete the build directory {wt}/_b to save disk.

Final reply: a brief summary - the patch inline, what it needs to manifest, and the test/demo results.""")
