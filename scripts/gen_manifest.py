#!/usr/bin/env python3
"""Regenerate MANIFEST.json from checks.json (per-check metadata) and the hook commits in /repo."""
import json, os, subprocess
V = os.path.dirname(os.path.dirname(os.path.abspath(__file__)))
checks = json.load(open(os.path.join(V, "checks.json")))
props = [json.loads(l) for l in open(os.path.join(V, "properties.jsonl"))]
hooks = subprocess.run(["git", "-C", "/repo", "log", "--format=%H %s"], capture_output=True, text=True).stdout.strip().split("\n")
hook_commits = [l.split()[0] for l in hooks if " verif hook" in l]
m = {
    "version": 1,
    "setup_cmd": "./check setup",
    "hooks": {
        "guard": "WENCRY_VERIF",
        "enable": "the driver compiles /repo's translation units itself with -DWENCRY_VERIF (and -include engine/vs_shim.h for the deterministic-scheduler variants); no CMake option is involved",
        "baseline_off_cmd": "./check baseline",
        "source_commits": hook_commits,
        "add_only": True,
    },
    "engines": [
        {"name": "rapidcheck-harness", "path": "engine/", "serves_properties": sorted(checks.keys()),
         "kind_free_text": "rapidcheck property harness (fork-per-case), deterministic scheduler substituted for std::mutex/condition_variable/thread, fopencookie memory files, independent reference oracle (engine/ref) self-tested against OpenSSL"},
    ],
    "checks": [],
    "not_applicable": [],
    "notes": "Driver: ./check <ID> --tier quick|thorough ; replay: ./check <ID> --replay <file>. Known findings: KNOWN_FINDINGS.txt. Design: DESIGN.md.",
}
for p in props:
    pid = p["id"]
    if pid in checks:
        c = checks[pid]
        m["checks"].append({
            "property_id": pid,
            "quick_cmd": "./check %s --tier quick" % pid,
            "thorough_cmd": "./check %s --tier thorough" % pid,
            "evidence_file": "evidence/%s.json" % pid,
            "replay_cmd_template": "./check %s --replay {path}" % pid,
            "engine": "rapidcheck-harness",
            "level_claimed": {"category": c["level"], "text": c.get("level_text", c["rule"]), "design_ref": c.get("design_ref", "DESIGN.md section 3, " + pid)},
            "level_note": "; ".join(c.get("assumptions", [])) or "reference oracle trusted through its self-test",
            "technique": c.get("technique", "property-based testing (rapidcheck) with generated inputs against an independent reference oracle"),
        })
    else:
        m["not_applicable"].append({"property_id": pid, "reason": "check not built yet (work in progress); property-based testing applies, see DESIGN.md"})
json.dump(m, open(os.path.join(V, "MANIFEST.json"), "w"), indent=1)
print("MANIFEST.json: %d checks, %d not_applicable" % (len(m["checks"]), len(m["not_applicable"])))
