// Shared machinery of the schedule-quantified properties C03 (output independent of the schedule,
// exactly-once), C04 (termination) and C14 (exclusive hand-over): one execution under the
// deterministic scheduler is judged by three independent oracles.
#pragma once
#include "pipe.h"

enum SchedProp
{
  SP_C03,
  SP_C04,
  SP_C14
};

// event kinds (mirror kernel/multi_aes/verif_hooks.h; the harness does not include repo headers)
enum
{
  EV_GROUP_BUF = 200,
  EV_GROUP_CTRL,
  EV_TAKE,
  EV_STATE,
  EV_FLUSH_BEGIN,
  EV_FLUSH_END,
  EV_FILL_BEGIN,
  EV_FILL_END,
  EV_WORKER_ENTER,
  EV_FOREIGN_WRITE = 211, // harness event: during the read of a fill, bytes of the buffer array OUTSIDE the data area of the buffer being
                          // filled changed (obj = first such address, a = how many, b = offset of the filled buffer in the array)
  EV_RUNCRY = 300
};

extern std::vector<wapi::Decision> g_last_trace; // decision trace of the last execution (for the enumerator)
extern bool g_last_trace_valid;

Verdict run_sched_case(const Case &c, SchedProp which);
Case gen_sched_case(SchedProp which);
void fixed_sched(Ctx &ctx, SchedProp which, const char *pid);

// ownership monitor over a totally ordered event stream; returns "" if every rule held
std::string monitor_events(const std::vector<wapi::Event> &ev, int T, const std::vector<uint32_t> &blocks_per_fill, bool recorder, std::map<std::string, uint64_t> *counts, bool partial = false, bool sizes_unknown = false);
