// The one translation unit that includes wencry headers. Built once per variant:
//   sched builds : force-included vs_shim.h (VS_SHIM defined) -> deterministic scheduler
//   plain builds : real std::thread
#define _GNU_SOURCE 1
#include "kernel/cry.h"
#include "kernel/hash/hashbuffer.h"
#include "kernel/hash/hashmaster.h"
#include "kernel/multi_aes/aes/aes.h"
#include "kernel/multi_aes/aes/aesmode.h"
#include "kernel/multi_aes/aes/tab.h"
#include "kernel/multi_aes/multi_buffergroup.h"
#include "kernel/multi_aes/multicry.h"
#include "kernel/multi_aes/verif_hooks.h"
#include "valget/base64/base64.h"
#include "valget/getval.h"
#ifdef VS_SHIM
#undef mutex
#undef condition_variable
#undef thread
#endif
#include "wapi.h"
#include "allocfault.h"
#include <errno.h>
#include <new>
#include <type_traits>
#include <iostream>
#include <mutex>
#include <atomic>
#include <thread>
#include <unistd.h>

#ifndef WENCRY_VERIF
#error "wapi.cpp must be built with -DWENCRY_VERIF"
#endif

namespace wapi
{
// ------------------------------------------------------------------------------------------------
// memory files (fopencookie)
extern "C" void wv_event(int kind, const void *obj, long a, long b);
static void io_runaway(const char *which); // more stream callbacks than any terminating run can make
static void io_outside(); // the I/O thread wrote outside the buffer it was filling: stop the run, ship the events
static uint64_t g_arr_lo = 0, g_arr_hi = 0, g_fill_lo = 0, g_fill_hi = 0; // chunk-buffer array / data area of the buffer being filled (from the hook events)
static std::vector<uint8_t> g_snap; // the array as it was when the fill began
static bool g_snap_valid = false;
struct MemFile
{
  uint64_t calls = 0;
  void tick(const char *which)
  {
    if (++calls > 2000000 + 64 * (uint64_t)d.size())
      io_runaway(which);
  }
  bytes d;
  long pos = 0;
  bool closed = false;
  uint32_t writes = 0, reads = 0;
  uint64_t written_bytes = 0;
  bool logging = false;
  std::vector<WriteRec> log;
  long fail_at = -1; // >= 0: every read at or beyond this offset fails with EIO (an unreadable stretch of the input)
  bool fail_once = false; // the error is transient: only the first such read fails
  long wfail_at = -1;     // >= 0: the stream takes this many bytes in all; what goes beyond is not written (ENOSPC)
  bool noseek = false;    // a pipe: seeking fails
};
static ssize_t mf_read(void *c, char *buf, size_t n)
{
  allocfault::Exempt af_;
  MemFile *m = (MemFile *)c;
  m->tick("read");
  m->reads++;
  if (m->fail_at >= 0 && m->pos >= m->fail_at)
  {
    if (m->fail_once)
      m->fail_at = -1;
    errno = EIO;
    return -1;
  }
  if (m->pos >= (long)m->d.size())
    return 0;
  size_t k = std::min(n, m->d.size() - (size_t)m->pos);
  if (m->fail_at >= 0 && m->pos + (long)k > m->fail_at)
    k = (size_t)(m->fail_at - m->pos); // deliver what lies before the bad stretch; the next read fails
  memcpy(buf, m->d.data() + m->pos, k);
  m->pos += k;
  return k;
}
static ssize_t mf_write(void *c, const char *buf, size_t n)
{
  allocfault::Exempt af_;
  MemFile *m = (MemFile *)c;
  m->tick("write");
  if (m->wfail_at >= 0 && (long)m->written_bytes + (long)n > m->wfail_at)
  {
    // device full: take what still fits (a short write), nothing afterwards
    long room = m->wfail_at - (long)m->written_bytes;
    if (room <= 0)
    {
      errno = ENOSPC;
      return 0; // fopencookie: 0 reports the error to stdio
    }
    n = (size_t)room;
  }
  m->writes++;
  m->written_bytes += n;
  if (n > (1u << 28))
  {
    // a single write of > 256 MiB from 16..256-byte chunks: certainly a wild length; keep only a bounded part
    if (m->logging)
      m->log.push_back({(uint64_t)m->pos, bytes()});
    m->d.resize(m->pos + 64);
    m->pos += n;
    return n;
  }
  if ((size_t)m->pos + n > m->d.size())
    m->d.resize(m->pos + n);
  memcpy(m->d.data() + m->pos, buf, n);
  if (m->logging)
    m->log.push_back({(uint64_t)m->pos, bytes(buf, buf + n)});
  m->pos += n;
  return n;
}
static int mf_seek(void *c, off64_t *off, int wh)
{
  allocfault::Exempt af_;
  MemFile *m = (MemFile *)c;
  m->tick("seek");
  if (m->noseek)
  {
    errno = ESPIPE;
    return -1;
  }
  long b = wh == SEEK_SET ? 0 : wh == SEEK_CUR ? m->pos : (long)m->d.size();
  long np = b + *off;
  if (np < 0)
    return -1;
  m->pos = np;
  *off = np;
  return 0;
}
static int mf_close(void *c)
{
  allocfault::Exempt af_;
  ((MemFile *)c)->closed = true;
  return 0;
}
static FILE *mf_open(MemFile *m, const char *mode, int bufmode = 0)
{
  cookie_io_functions_t io = {mf_read, mf_write, mf_seek, mf_close};
  m->pos = 0;
  m->closed = false;
  FILE *f = fopencookie(m, mode, io);
  if (bufmode == 1)
    setvbuf(f, NULL, _IONBF, 0);
  else if (bufmode == 2)
    setvbuf(f, NULL, _IOFBF, 64);
  return f;
}

void quiet_stdout()
{
  std::cout.setstate(std::ios::failbit);
}

#if defined(__has_feature)
#if __has_feature(thread_sanitizer)
#define WV_TSAN 1
#endif
#endif
#if defined(__SANITIZE_THREAD__) && !defined(WV_TSAN)
#define WV_TSAN 1
#endif
#ifdef WV_TSAN
// Real-thread builds under ThreadSanitizer (extra runs of C03 / C14). Each case runs in a forked child that
// stops at its first report (exit 97) and leaves the report in ./tsanlog.<pid> for the harness to judge.
extern "C" const char *__tsan_default_options()
{
  return "halt_on_error=1:exitcode=97:report_signal_unsafe=0:log_path=tsanlog:second_deadlock_stack=1";
}
// buffergroup::turn_iter reads bufferctrl::state without the lock while a worker may be writing
// READY -> UPDATING in set_update(). The I/O thread only compares with INV, a value only the I/O thread
// itself ever stores, so the comparison cannot depend on the race. It is in the pinned tree, formally a data
// race, and outside the listed properties: suppressed so that it can neither mask nor fake a verdict.
extern "C" const char *__tsan_default_suppressions() { return "race:buffergroup::turn_iter\n"; }
#endif
bool has_scheduler()
{
#ifdef VS_SHIM
  return true;
#else
  return false;
#endif
}
int chunk_capacity() { return (int)(iobuffer::BUF_SZ << 4); }
int refill_capacity() { return (int)filebuffer64::HBUF_CAP; }

// ------------------------------------------------------------------------------------------------
// events and yield points
static std::vector<Event> g_events;
static bool g_capture = false;
static std::mutex g_ev_m;
} // namespace wapi

extern "C" void wv_point(int kind, const void *obj)
{
#ifdef VS_SHIM
  if (kind == WVP_IO_LOAD_READ && wapi::g_snap_valid)
  {
    // first yield point after the read of a fill: compare the buffer array with the copy taken at FILL_BEGIN
    using namespace wapi;
    g_snap_valid = false;
    const uint8_t *now = (const uint8_t *)(uintptr_t)g_arr_lo;
    size_t n = g_snap.size(), first = n, changed = 0;
    for (size_t i = 0; i < n; i++)
    {
      uint64_t a = g_arr_lo + i;
      if (a >= g_fill_lo && a < g_fill_hi)
        continue;
      if (now[i] != g_snap[i])
      {
        if (first == n)
          first = i;
        changed++;
      }
    }
    if (changed)
    {
      wv_event(211, (const void *)(uintptr_t)(g_arr_lo + first), (long)changed, (long)(g_fill_lo - g_arr_lo));
      io_outside();
    }
  }
  vsched::point(kind, obj);
#else
  (void)kind;
  (void)obj;
#endif
}
extern "C" void wv_event(int kind, const void *obj, long a, long b)
{
  using namespace wapi;
  static int dbg = getenv("WV_DEBUG") ? 1 : 0;
  if (dbg)
    fprintf(stderr, "EV kind=%d obj=%p a=%ld b=%ld\n", kind, obj, a, b);
  if (kind == WVE_GROUP_BUF) // base, count, stride
  {
    g_arr_lo = (uint64_t)(uintptr_t)obj;
    g_arr_hi = g_arr_lo + (uint64_t)a * (uint64_t)b;
  }
  else if (kind == WVE_FILL_BEGIN) // the buffer the I/O thread is about to fill
  {
    g_fill_lo = (uint64_t)(uintptr_t)obj;
    g_fill_hi = g_fill_lo + ((uint64_t)iobuffer::BUF_SZ << 4);
#ifdef VS_SHIM
    // Under the deterministic scheduler nothing else runs between this event and the first yield point inside
    // load_buffer (right after the read): whatever changes in the buffer array in between was written by the I/O
    // thread's read. Keep a copy of the array to compare with (wv_point below).
    if (g_capture && g_arr_hi > g_arr_lo && g_arr_hi - g_arr_lo <= (1u << 20))
    {
      allocfault::Exempt af_;
      g_snap.assign((const uint8_t *)(uintptr_t)g_arr_lo, (const uint8_t *)(uintptr_t)g_arr_hi);
      g_snap_valid = true;
    }
#endif
  }
  else if (kind == WVE_FILL_END)
  {
    g_fill_lo = g_fill_hi = 0;
    g_snap_valid = false;
  }
  if (!g_capture)
    return;
  allocfault::Exempt af_;
#ifdef VS_SHIM
  g_events.push_back({kind, vsched::self(), (uint64_t)(uintptr_t)obj, a, b});
#else
  std::lock_guard<std::mutex> lk(g_ev_m);
  g_events.push_back({kind, -1, (uint64_t)(uintptr_t)obj, a, b});
#endif
}

namespace wapi
{
// ------------------------------------------------------------------------------------------------
// schedule specs
static std::string join_u(const std::vector<uint32_t> &v)
{
  std::string s;
  for (size_t i = 0; i < v.size(); i++)
    s += (i ? "," : "") + std::to_string(v[i]);
  return s;
}
std::string SchedSpec::text() const
{
  std::string s = "k" + std::to_string(kind);
  if (kind == 1)
    s += ";walk:" + hex(walk);
  if (kind == 2)
  {
    s += ";prio:";
    for (size_t i = 0; i < prio.size(); i++)
      s += (i ? "," : "") + std::to_string(prio[i]);
    s += ";change:" + join_u(change);
  }
  if (kind == 3)
    s += ";prefix:" + hex(prefix);
  if (!spurious.empty())
    s += ";spur:" + join_u(spurious);
  if (max_steps)
    s += ";max:" + std::to_string(max_steps);
  return s;
}
static std::vector<std::string> split(const std::string &s, char c)
{
  std::vector<std::string> r;
  size_t i = 0;
  while (i <= s.size())
  {
    size_t e = s.find(c, i);
    if (e == std::string::npos)
      e = s.size();
    r.push_back(s.substr(i, e - i));
    i = e + 1;
  }
  return r;
}
SchedSpec SchedSpec::parse(const std::string &s)
{
  SchedSpec sp;
  for (auto &part : split(s, ';'))
  {
    if (part.size() >= 2 && part[0] == 'k' && part.find(':') == std::string::npos)
      sp.kind = atoi(part.c_str() + 1);
    else if (part.rfind("walk:", 0) == 0)
      sp.walk = unhex(part.substr(5));
    else if (part.rfind("prefix:", 0) == 0)
      sp.prefix = unhex(part.substr(7));
    else if (part.rfind("prio:", 0) == 0)
    {
      for (auto &x : split(part.substr(5), ','))
        if (!x.empty())
          sp.prio.push_back(atoi(x.c_str()));
    }
    else if (part.rfind("change:", 0) == 0)
    {
      for (auto &x : split(part.substr(7), ','))
        if (!x.empty())
          sp.change.push_back((uint32_t)atol(x.c_str()));
    }
    else if (part.rfind("spur:", 0) == 0)
    {
      for (auto &x : split(part.substr(5), ','))
        if (!x.empty())
          sp.spurious.push_back((uint32_t)atol(x.c_str()));
    }
    else if (part.rfind("max:", 0) == 0)
      sp.max_steps = strtoull(part.c_str() + 4, NULL, 10);
  }
  return sp;
}

#ifdef VS_SHIM
struct SpecChooser : vsched::Chooser
{
  const SchedSpec &sp;
  uint64_t dec = 0; // ordinal of decisions with more than one alternative
  std::vector<int> prio;
  int lowest = -1000;
  std::vector<Decision> trace;
  explicit SpecChooser(const SchedSpec &s) : sp(s), prio(s.prio) {}
  int &pr(int id)
  {
    while ((int)prio.size() <= id)
      prio.push_back(-(int)prio.size());
    return prio[id];
  }
  int pick(int n, const int *ids, bool cur_runnable, int kind, uint64_t) override
  {
    (void)kind;
    if (n <= 1)
      return 0;
    uint64_t k = dec++;
    int idx = 0;
    switch (sp.kind)
    {
    case 1:
      if (k < sp.walk.size())
        idx = sp.walk[k] % n;
      break;
    case 2:
    {
      if (cur_runnable)
        for (uint32_t c : sp.change)
          if (c == k)
            pr(ids[0]) = lowest--;
      int best = 0;
      for (int i = 1; i < n; i++)
        if (pr(ids[i]) > pr(ids[best]))
          best = i;
      idx = best;
      break;
    }
    case 3:
      if (k < sp.prefix.size())
        idx = sp.prefix[k] < n ? sp.prefix[k] : 0;
      break;
    default:
      break;
    }
    allocfault::Exempt af_;
    if (sp.record)
      trace.push_back({(uint8_t)n, (uint8_t)idx, (uint8_t)cur_runnable, (uint8_t)ids[idx]});
    return idx;
  }
  bool spurious(uint64_t ord) override
  {
    for (uint32_t s : sp.spurious)
      if (s == ord)
        return true;
    return false;
  }
};
static SpecChooser *g_chooser = nullptr;

static void fatal_handler(const char *what)
{
  // runs in the child at the step where the scheduler found a deadlock / exceeded the step bound
  allocfault::disarm();
  Ser s;
  s.u8(what[0] == 'd' ? 1 : 2);
  vsched::Outcome &o = vsched::current();
  std::string d = o.blocked_desc + " steps=" + std::to_string(o.steps);
  s.str(d);
  Ser pl;
  // partial payload: the decision trace so far (lets the enumerator continue)
  if (g_chooser)
  {
    pl.u32((uint32_t)g_chooser->trace.size());
    for (auto &t : g_chooser->trace)
    {
      pl.u8(t.n);
      pl.u8(t.chosen);
      pl.u8(t.cur_runnable);
      pl.u8(t.tid);
    }
  }
  // ... and the hook events recorded so far (the ownership monitor judges the safety rules on them)
  pl.u32((uint32_t)g_events.size());
  for (auto &e : g_events)
  {
    pl.u32(e.kind);
    pl.u32(e.tid);
    pl.u64(e.obj);
    pl.u64((uint64_t)e.a);
    pl.u64((uint64_t)e.b);
  }
  s.blob(pl.b);
  if (g_child_fd >= 0)
  {
    size_t off = 0;
    while (off < s.b.size())
    {
      ssize_t k = write(g_child_fd, s.b.data() + off, s.b.size() - off);
      if (k <= 0)
        break;
      off += k;
    }
  }
  else
  {
    // not inside a forked case (replay in-process, libFuzzer target): die loudly so that the caller
    // (libFuzzer's crash handler) records the input
    fprintf(stderr, "scheduler: %s: %s\n", what, d.c_str());
    abort();
  }
  _exit(what[0] == 'd' ? 42 : 43);
}
#endif

// a loop that polls a stream for ever never reaches a schedule point: the scheduler's step bound cannot fire, so
// the memory files count their callbacks and report the same way (deterministically, no wall clock involved)
static void io_runaway(const char *which)
{
#ifdef VS_SHIM
  if (vsched::active())
  {
    vsched::current().blocked_desc = std::string("endless I/O loop: more than 2000000 + 64*size ") + which + " calls on one stream;";
    fatal_handler("steplimit");
  }
#endif
  fprintf(stderr, "endless I/O loop: runaway %s calls on one stream\n", which);
  _exit(43);
}

static void io_outside()
{
#ifdef VS_SHIM
  if (vsched::active())
  {
    vsched::current().blocked_desc = "stopped by the harness: while filling one chunk buffer the I/O thread changed memory of the buffer array outside that buffer's data area;";
    fatal_handler("steplimit");
  }
#endif
}

template <class F>
static void with_sched(const PipeCfg &pc, size_t nblocks, OpOut &out, F f)
{
  g_arr_lo = g_arr_hi = g_fill_lo = g_fill_hi = 0;
  g_snap_valid = false;
  g_events.clear();
  g_capture = pc.want_events;
#ifdef VS_SHIM
  SpecChooser ch(pc.sched);
  g_chooser = &ch;
  vsched::on_fatal = fatal_handler;
  uint64_t maxs = pc.sched.max_steps ? pc.sched.max_steps : 200ull * (nblocks + pc.T + 10);
  vsched::begin(&ch, maxs, false);
  if (pc.fail_new >= -1)
    allocfault::arm(pc.fail_new);
  else if (pc.fail_big == 1) // new iobuffer[T] (16 MiB per element in the production build); array cookie included
    allocfault::arm_size((unsigned long)pc.T * sizeof(iobuffer), (unsigned long)pc.T * sizeof(iobuffer) + 32);
  else if (pc.fail_big == 2) // new filebuffer64 (32 MiB in the production build)
    allocfault::arm_size(sizeof(filebuffer64), sizeof(filebuffer64));
  try
  {
    f();
  }
  catch (const std::bad_alloc &)
  {
    out.threw = true; // the operation reported the (injected) allocation failure by exception
  }
  allocfault::disarm();
  out.fault_fired = allocfault::fired();
  out.allocs_seen = (uint32_t)allocfault::seen();
  vsched::Outcome o = vsched::end();
  g_chooser = nullptr;
  out.sched.steps = o.steps;
  out.sched.switches = o.switches;
  out.sched.preemptions = o.preemptions;
  out.sched.cvwaits = o.cvwaits;
  out.sched.spurious = o.spurious;
  out.sched.nthreads = o.nthreads;
  out.sched.decisions = ch.dec;
  out.sched.trace = ch.trace;
#else
  (void)nblocks;
  f(); // no injected faults on real threads
#endif
  g_capture = false;
  out.events = g_events;
  g_events.clear();
}

static void set_refill(int units);
static void set_chunk(const PipeCfg &pc)
{
  if (pc.refill > 0)
    set_refill(pc.refill);
  if (pc.chunk > 0)
  {
    if (pc.chunk % 16 != 0 || pc.chunk > chunk_capacity())
    {
      fprintf(stderr, "harness error: chunk %d not supported by this build (capacity %d)\n", pc.chunk, chunk_capacity());
      _exit(97);
    }
    iobuffer::sum = (u32_t)pc.chunk;
  }
}

static void finish(OpOut &o, MemFile &in, const bytes &in_orig, MemFile *out)
{
  o.in_writes = in.writes;
  o.in_same = (in.d == in_orig);
  o.in_closed = in.closed;
  if (out)
  {
    o.out = out->d;
    o.out_writes = out->writes;
    o.out_written_bytes = out->written_bytes;
    o.out_closed = out->closed;
    o.log = out->log;
  }
  o.live_after = bufferctrl::haslive() ? 1 : 0;
}

OpOut encrypt(const bytes &plain, const bytes &key, const bytes &seed, int cmode, int hmode, const PipeCfg &pc)
{
  OpOut o;
  set_chunk(pc);
  MemFile in, out;
  in.d = plain;
  in.fail_at = pc.in_fail_at;
  in.fail_once = pc.in_fail_once;
  in.noseek = pc.in_noseek;
  out.wfail_at = pc.out_fail_at;
  out.logging = pc.want_log;
  FILE *fi = pc.null_input ? NULL : mf_open(&in, "rb", pc.inbuf);
  FILE *fo = mf_open(&out, "wb+", pc.outbuf);
  bytes k = key;
  k.resize(16);
  bytes sd = seed;
  sd.push_back(0);
  with_sched(pc, plain.size() / 16 + 2, o, [&] {
    Settings s((char)cmode, (char)hmode, true);
    runcrypt rc(fi, fo, pc.key_buf ? pc.key_buf : k.data(), s, (u8_t)pc.T);
    o.ret = rc.execute_encrypt(pc.fsize_hint >= 0 ? (size_t)pc.fsize_hint : plain.size(), pc.seed_buf ? pc.seed_buf : sd.data());
  });
  finish(o, in, plain, &out);
  return o;
}

OpOut decrypt(const bytes &file, const bytes &key, const PipeCfg &pc)
{
  OpOut o;
  set_chunk(pc);
  MemFile in, out;
  in.d = file;
  in.fail_at = pc.in_fail_at;
  in.fail_once = pc.in_fail_once;
  in.noseek = pc.in_noseek;
  out.wfail_at = pc.out_fail_at;
  out.logging = pc.want_log;
  FILE *fi = pc.null_input ? NULL : mf_open(&in, "rb", pc.inbuf);
  FILE *fo = mf_open(&out, "wb+", pc.outbuf);
  bytes k = key;
  k.resize(16);
  with_sched(pc, file.size() / 16 + 2, o, [&] {
    Settings s((char)pc.hint_c, (char)pc.hint_h, true);
    runcrypt rc(fi, fo, pc.key_buf ? pc.key_buf : k.data(), s, (u8_t)pc.T);
    o.ret = rc.execute_decrypt(pc.fsize_hint >= 0 ? (size_t)pc.fsize_hint : file.size());
  });
  finish(o, in, file, &out);
  return o;
}

OpOut verify(const bytes &file, const bytes &key, const PipeCfg &pc, bool with_out)
{
  OpOut o;
  set_chunk(pc);
  MemFile in, out;
  in.d = file;
  in.fail_at = pc.in_fail_at;
  in.fail_once = pc.in_fail_once;
  in.noseek = pc.in_noseek;
  FILE *fi = pc.null_input ? NULL : mf_open(&in, "rb", pc.inbuf);
  FILE *fo = with_out ? mf_open(&out, "wb+", pc.outbuf) : NULL;
  bytes k = key;
  k.resize(16);
  with_sched(pc, file.size() / 16 + 2, o, [&] {
    Settings s((char)pc.hint_c, (char)pc.hint_h, true);
    runcrypt rc(fi, fo, pc.key_buf ? pc.key_buf : k.data(), s, (u8_t)pc.T);
    o.ret = rc.execute_verify(pc.fsize_hint >= 0 ? (size_t)pc.fsize_hint : file.size());
  });
  finish(o, in, file, with_out ? &out : NULL);
  return o;
}

std::vector<int> verify_concurrent(const bytes &file, const std::vector<bytes> &keys, int T, int chunk, int refill_units, int reps)
{
  PipeCfg pc;
  pc.T = T;
  pc.chunk = chunk;
  set_chunk(pc); // the hooked constants are set once, before any thread exists
  if (refill_units > 0)
    set_refill(refill_units);
  std::vector<int> ok(keys.size(), 0);
#ifndef VS_SHIM
  std::atomic<int> ready{0};
  std::vector<std::thread> ts;
  for (size_t t = 0; t < keys.size(); t++)
    ts.emplace_back([&, t] {
      ready++;
      while (ready.load() < (int)keys.size())
      {
      }
      for (int r = 0; r < reps; r++)
      {
        MemFile in;
        in.d = file;
        FILE *fi = mf_open(&in, "rb");
        bytes k = keys[t];
        k.resize(16);
        Settings s((char)-1, (char)-1, true);
        runcrypt rc(fi, NULL, k.data(), s, (u8_t)T);
        if (rc.execute_verify(file.size()))
          ok[t]++;
      }
    });
  for (auto &th : ts)
    th.join();
#else
  (void)file;
  (void)reps;
#endif
  return ok;
}

// ------------------------------------------------------------------------------------------------
// recorder streams
void rec_transform(int stream, uint32_t ordinal, const uint8_t in[16], uint8_t out[16])
{
  uint8_t t[16];
  for (int i = 0; i < 16; i++)
  {
    uint64_t m = mix64(((uint64_t)stream << 40) ^ ((uint64_t)ordinal << 8) ^ (uint64_t)i);
    t[i] = (uint8_t)(in[(i + 1) & 15] ^ (uint8_t)m);
  }
  memcpy(out, t, 16);
}
static std::vector<RecCall> g_calls;
class RecMode : public Aesmode
{
  int stream;
  uint32_t ord = 0;

public:
  RecMode(const u8_t *iv, int s) : Aesmode(iv), stream(s) {}
  void runcry(u8_t *block) override
  {
    allocfault::Exempt af_;
#ifdef VS_SHIM
    int tid = vsched::self();
#else
    int tid = -1;
    std::lock_guard<std::mutex> lk(g_ev_m);
#endif
    g_calls.push_back({tid, stream, ord, (uint64_t)(uintptr_t)block});
    if (g_capture)
      g_events.push_back({300, tid, (uint64_t)(uintptr_t)block, (long)stream, (long)ord});
    rec_transform(stream, ord, block, block);
    ord++;
  }
};
RecOut run_recorder(const bytes &input, bool ispadding, const PipeCfg &pc)
{
  RecOut r;
  set_chunk(pc);
  MemFile in, out;
  in.d = input;
  in.fail_at = pc.in_fail_at;
  in.fail_once = pc.in_fail_once;
  out.logging = pc.want_log;
  FILE *fi = mf_open(&in, "rb", pc.inbuf);
  FILE *fo = mf_open(&out, "wb+", pc.outbuf);
  g_calls.clear();
  u8_t iv[16] = {0};
  std::vector<Aesmode *> modes;
  for (int i = 0; i < pc.T; i++)
    modes.push_back(new RecMode(iv, i));
  with_sched(pc, input.size() / 16 + 2, r.op, [&] {
    buffergroup *bg = buffergroup::get_instance();
    bg->set_buffergroup(pc.T, fi, fo, ispadding);
    {
      multicry_master crym((u8_t)pc.T);
      crym.run_multicry(modes.data(), [](std::string, size_t) {});
    }
    buffergroup::del_instance();
    r.op.ret = true;
  });
  fflush(fo);
  finish(r.op, in, input, &out);
  fclose(fi);
  fclose(fo);
  for (auto *m : modes)
    delete m;
  r.calls = g_calls;
  g_calls.clear();
  for (auto &e : r.op.events)
    if (e.kind == WVE_GROUP_BUF)
    {
      r.buf_base = e.obj;
      r.buf_count = e.a;
      r.buf_stride = e.b;
    }
  return r;
}

// ------------------------------------------------------------------------------------------------
// serialisation
static void ser_op(Ser &s, const OpOut &o)
{
  s.u8(o.ret);
  s.blob(o.out);
  s.u32(o.out_writes);
  s.u64(o.out_written_bytes);
  s.u32(o.in_writes);
  s.u8(o.in_same);
  s.u8(o.in_closed);
  s.u8(o.out_closed);
  s.u32((uint32_t)o.log.size());
  for (auto &w : o.log)
  {
    s.u64(w.off);
    s.blob(w.data);
  }
  s.u64(o.sched.steps);
  s.u64(o.sched.switches);
  s.u64(o.sched.preemptions);
  s.u64(o.sched.cvwaits);
  s.u64(o.sched.spurious);
  s.u64(o.sched.decisions);
  s.u32(o.sched.nthreads);
  s.u32((uint32_t)o.sched.trace.size());
  for (auto &t : o.sched.trace)
  {
    s.u8(t.n);
    s.u8(t.chosen);
    s.u8(t.cur_runnable);
    s.u8(t.tid);
  }
  s.u32((uint32_t)o.events.size());
  for (auto &e : o.events)
  {
    s.u32(e.kind);
    s.u32(e.tid);
    s.u64(e.obj);
    s.u64((uint64_t)e.a);
    s.u64((uint64_t)e.b);
  }
  s.u32((uint32_t)o.live_after);
  s.u8(o.threw);
  s.u8(o.fault_fired);
  s.u32(o.allocs_seen);
}
static void de_op(De &d, OpOut &o)
{
  o.ret = d.u8();
  o.out = d.blob();
  o.out_writes = d.u32();
  o.out_written_bytes = d.u64();
  o.in_writes = d.u32();
  o.in_same = d.u8();
  o.in_closed = d.u8();
  o.out_closed = d.u8();
  uint32_t n = d.u32();
  for (uint32_t i = 0; i < n && !d.bad; i++)
  {
    WriteRec w;
    w.off = d.u64();
    w.data = d.blob();
    o.log.push_back(w);
  }
  o.sched.steps = d.u64();
  o.sched.switches = d.u64();
  o.sched.preemptions = d.u64();
  o.sched.cvwaits = d.u64();
  o.sched.spurious = d.u64();
  o.sched.decisions = d.u64();
  o.sched.nthreads = d.u32();
  n = d.u32();
  for (uint32_t i = 0; i < n && !d.bad; i++)
  {
    Decision t;
    t.n = d.u8();
    t.chosen = d.u8();
    t.cur_runnable = d.u8();
    t.tid = d.u8();
    o.sched.trace.push_back(t);
  }
  n = d.u32();
  for (uint32_t i = 0; i < n && !d.bad; i++)
  {
    Event e;
    e.kind = d.u32();
    e.tid = (int)d.u32();
    e.obj = d.u64();
    e.a = (long)d.u64();
    e.b = (long)d.u64();
    o.events.push_back(e);
  }
  o.live_after = (int)d.u32();
  o.threw = d.u8();
  o.fault_fired = d.u8();
  o.allocs_seen = d.u32();
}
bytes OpOut::ser() const
{
  Ser s;
  ser_op(s, *this);
  return s.b;
}
OpOut OpOut::de(const bytes &b)
{
  De d(b);
  OpOut o;
  de_op(d, o);
  return o;
}
bytes RecOut::ser() const
{
  Ser s;
  ser_op(s, op);
  s.u32((uint32_t)calls.size());
  for (auto &c : calls)
  {
    s.u32(c.tid);
    s.u32(c.stream);
    s.u32(c.ordinal);
    s.u64(c.addr);
  }
  s.u64(buf_base);
  s.u64(buf_stride);
  s.u64(buf_count);
  return s.b;
}
RecOut RecOut::de(const bytes &b)
{
  De d(b);
  RecOut r;
  de_op(d, r.op);
  uint32_t n = d.u32();
  for (uint32_t i = 0; i < n && !d.bad; i++)
  {
    RecCall c;
    c.tid = (int)d.u32();
    c.stream = (int)d.u32();
    c.ordinal = d.u32();
    c.addr = d.u64();
    r.calls.push_back(c);
  }
  r.buf_base = d.u64();
  r.buf_stride = d.u64();
  r.buf_count = d.u64();
  return r;
}

// ------------------------------------------------------------------------------------------------
// hashes
int hash_len(int alg) { return alg == 0 ? 20 : alg == 1 ? 16 : 32; }
static Hashmaster *hasher(int alg)
{
  HashFactory hf;
  return hf.getHasher(HashFactory::getType((u8_t)alg));
}
bytes hash_string(int alg, const bytes &m, int addr_off)
{
  Hashmaster *h = hasher(alg);
  bytes out(hash_len(alg));
  // heap copy that ends exactly where the message ends, so that any over-read is visible to ASan; the message may
  // start at any address residue (a caller's message need not be word aligned)
  addr_off &= 7;
  u8_t *raw = new u8_t[m.size() + (size_t)addr_off + (m.empty() && !addr_off ? 1 : 0)];
  u8_t *copy = raw + addr_off;
  if (!m.empty())
    memcpy(copy, m.data(), m.size());
  h->getStringHash(copy, (u32_t)m.size(), out.data());
  delete[] raw;
  delete h;
  return out;
}
bytes hash_string_inplace(int alg, const bytes &m, size_t out_off)
{
  Hashmaster *h = hasher(alg);
  size_t hl = (size_t)hash_len(alg);
  size_t cap = std::max(m.size(), out_off + hl);
  u8_t *buf = new u8_t[cap ? cap : 1];
  memset(buf, 0xEE, cap);
  if (!m.empty())
    memcpy(buf, m.data(), m.size());
  h->getStringHash(buf, (u32_t)m.size(), buf + out_off); // the result lands inside (or right behind) the message
  bytes out(buf + out_off, buf + out_off + hl);
  delete[] buf;
  delete h;
  return out;
}
bytes hash_string_reuse(int alg, const bytes &decoy, const bytes &m)
{
  Hashmaster *h = hasher(alg);
  bytes out(hash_len(alg)), tmp(hash_len(alg));
  h->getStringHash(decoy.empty() ? (const u8_t *)"" : decoy.data(), (u32_t)decoy.size(), tmp.data());
  h->getStringHash(m.empty() ? (const u8_t *)"" : m.data(), (u32_t)m.size(), out.data());
  delete h;
  return out;
}
static void set_refill(int units)
{
  if (units > 0)
  {
    if (units > refill_capacity())
    {
      fprintf(stderr, "harness error: refill %d > capacity %d\n", units, refill_capacity());
      _exit(97);
    }
    filebuffer64::HBUF_SZ = (u32_t)units;
  }
}
// how the stream reaches the code under test: 0 = seekable, positioned at `pos` with fseek; 1 = a pipe that starts at
// `pos` (nothing read from it yet); 2 = read to its end by the caller (EOF indicator set); 3 = a pipe that carries the
// whole file, of which the caller has read the first `pos` bytes through stdio (a header) - stdio holds read-ahead
static FILE *open_positioned(MemFile &in, const bytes &file, size_t pos, int how)
{
  in.d = file;
  if (how == 1)
  {
    in.d.assign(file.begin() + (long)std::min(pos, file.size()), file.end());
    in.noseek = true;
  }
  else if (how == 3)
    in.noseek = true;
  FILE *fi = mf_open(&in, "rb");
  if (how == 0)
    fseek(fi, (long)pos, SEEK_SET);
  else if (how == 2)
  {
    char sink[97];
    while (fread(sink, 1, sizeof sink, fi) == sizeof sink)
      ;
  }
  else if (how == 3)
  {
    std::vector<char> hdr(pos ? pos : 1);
    size_t got = fread(hdr.data(), 1, pos, fi);
    (void)got;
  }
  return fi;
}
bytes hash_filebuf(int alg, const bytes &file, size_t pos, int refill_units, const bytes *prefix64, const bytes *decoy, int how)
{
  set_refill(refill_units);
  MemFile in;
  FILE *fi = open_positioned(in, file, pos, how);
  Hashmaster *h = hasher(alg);
  bytes out(hash_len(alg));
  u8_t pre[64];
  if (prefix64)
    memcpy(pre, prefix64->data(), 64);
  filebuffer64 *fb = new filebuffer64(fi, [](std::string, size_t) {}, prefix64 ? pre : NULL);
  // a second hashing buffer over another file is alive at the same time (constructed after, destroyed after)
  MemFile in2;
  FILE *fi2 = NULL;
  filebuffer64 *fb2 = NULL;
  if (decoy)
  {
    in2.d = *decoy;
    fi2 = mf_open(&in2, "rb");
    fb2 = new filebuffer64(fi2, [](std::string, size_t) {}, NULL);
  }
  h->getFileHash(fb, out.data());
  delete fb;
  if (fb2)
  {
    delete fb2;
    fclose(fi2);
  }
  delete h;
  fclose(fi);
  return out;
}
class SynthBuf : public buffer64
{
  uint64_t len, off = 0;
  uint32_t pat;

public:
  SynthBuf(uint64_t l, uint32_t p) : len(l), pat(p) {}
  u32_t read_buffer64(u8_t *block, const std::function<void(std::string, size_t)> &) override
  {
    uint64_t left = len - off;
    u32_t n = left >= 64 ? 64 : (u32_t)left;
    for (u32_t i = 0; i < n; i++)
      block[i] = synth_byte(off + i, pat);
    off += n;
    return n;
  }
};
bytes hash_synth(int alg, uint64_t len, uint32_t pat)
{
  Hashmaster *h = hasher(alg);
  bytes out(hash_len(alg));
  SynthBuf sb(len, pat);
  h->getFileHash(&sb, out.data());
  delete h;
  return out;
}

bytes hash_string_synth(int alg, uint64_t len, uint32_t pat)
{
  Hashmaster *h = hasher(alg);
  bytes out(hash_len(alg));
  // materialising the message needs `len` bytes of real memory: skip (caller counts it) unless the machine
  // clearly has them, so that the OOM killer can never turn this case into a fake crash
  {
    unsigned long long avail_kb = 0;
    if (FILE *mi = fopen("/proc/meminfo", "r"))
    {
      char line[256];
      while (fgets(line, sizeof line, mi))
        if (sscanf(line, "MemAvailable: %llu kB", &avail_kb) == 1)
          break;
      fclose(mi);
    }
    if (avail_kb && avail_kb * 1024ull < 3ull * len + (2ull << 30))
    {
      delete h;
      return bytes();
    }
  }
  u8_t *m = (u8_t *)malloc(len ? len : 1);
  if (!m)
  {
    // not enough memory on this machine for the materialised message: the caller skips the case
    delete h;
    return bytes();
  }
  for (uint64_t i = 0; i < len; i++)
    m[i] = synth_byte(i, pat);
  h->getStringHash(m, (u32_t)len, out.data());
  free(m);
  delete h;
  return out;
}

bytes hmac_get(int hmode, const bytes &key, const bytes &file, size_t pos, int refill_units, int how)
{
  set_refill(refill_units);
  MemFile in;
  FILE *fi = open_positioned(in, file, pos, how);
  bytes k = key;
  k.resize(16);
  hmac h;
  bytes out(64, 0xEE);
  h.gethmac((u8_t)hmode, k.data(), fi, out.data(), file.size());
  out.resize(h.get_length());
  fclose(fi);
  return out;
}
bool hmac_cmp(int hmode, const bytes &key, const bytes &file, size_t pos, const bytes &tag64, int refill_units, int how)
{
  set_refill(refill_units);
  MemFile in;
  FILE *fi = open_positioned(in, file, pos, how);
  bytes k = key;
  k.resize(16);
  hmac h;
  bytes t = tag64;
  t.resize(64, 0);
  bool r = h.cmphmac((u8_t)hmode, k.data(), fi, t.data(), file.size());
  fclose(fi);
  return r;
}
std::vector<bytes> hmac_seq(const std::vector<HmacCall> &calls, int refill_units)
{
  set_refill(refill_units);
  std::vector<bytes> res;
  hmac h;
  std::vector<MemFile *> mfs;
  std::vector<FILE *> fps;
  for (auto &c : calls)
  {
    FILE *fi;
    if (c.same_stream && !fps.empty())
      fi = fps.back();
    else
    {
      MemFile *in = new MemFile;
      in->d = c.file;
      fi = mf_open(in, "rb");
      fseek(fi, (long)c.pos, SEEK_SET);
      mfs.push_back(in);
      fps.push_back(fi);
    }
    bytes k = c.key;
    k.resize(16);
    if (c.kind == 0)
    {
      bytes out(64, 0xEE);
      h.gethmac((u8_t)c.hmode, k.data(), fi, out.data(), c.file.size());
      out.resize(h.get_length());
      res.push_back(out);
    }
    else
    {
      bytes t = c.tag64;
      t.resize(64, 0);
      bool r = h.cmphmac((u8_t)c.hmode, k.data(), fi, t.data(), c.file.size());
      res.push_back(bytes(1, r ? 1 : 0));
    }
  }
  for (FILE *f : fps)
    fclose(f);
  for (MemFile *m : mfs)
    delete m;
  return res;
}
// a read-only stream of `len` synthetic bytes (byte i = synth_byte(i, pat)): nothing is materialised
struct SynthFile
{
  uint64_t len, pos;
  uint32_t pat;
};
static ssize_t sf_read(void *c, char *buf, size_t n)
{
  SynthFile *f = (SynthFile *)c;
  if (f->pos >= f->len)
    return 0;
  size_t m = (size_t)std::min<uint64_t>(n, f->len - f->pos);
  for (size_t i = 0; i < m; i++)
    buf[i] = (char)synth_byte(f->pos + i, f->pat);
  f->pos += m;
  return (ssize_t)m;
}
static int sf_seek(void *c, off64_t *off, int whence)
{
  SynthFile *f = (SynthFile *)c;
  int64_t base = whence == SEEK_SET ? 0 : whence == SEEK_CUR ? (int64_t)f->pos : (int64_t)f->len;
  int64_t np = base + *off;
  if (np < 0)
    return -1;
  f->pos = (uint64_t)np;
  *off = np;
  return 0;
}
bytes hmac_synth(int hmode, const bytes &key, uint64_t len, uint32_t pat, uint64_t pos, const bytes *cmp_tag, bool *cmp_result)
{
  set_refill(refill_capacity());
  SynthFile sf{len, 0, pat};
  cookie_io_functions_t io = {sf_read, NULL, sf_seek, NULL};
  FILE *fi = fopencookie(&sf, "rb", io);
  static char big[1 << 16];
  setvbuf(fi, big, _IOFBF, sizeof big);
  bytes k = key;
  k.resize(16);
  bytes out(64, 0xEE);
  {
    hmac h;
    fseeko(fi, (off_t)pos, SEEK_SET);
    h.gethmac((u8_t)hmode, k.data(), fi, out.data(), len);
    out.resize(h.get_length());
  }
  if (cmp_tag && cmp_result)
  {
    hmac h2;
    bytes t = *cmp_tag;
    t.resize(64, 0);
    fseeko(fi, (off_t)pos, SEEK_SET);
    *cmp_result = h2.cmphmac((u8_t)hmode, k.data(), fi, t.data(), len);
  }
  fclose(fi);
  return out;
}
bytes hmac_write(int hmode, const bytes &key, const bytes &file, size_t hash_mark, size_t write_mark, int refill_units)
{
  set_refill(refill_units);
  MemFile f;
  f.d = file;
  FILE *fp = mf_open(&f, "rb+");
  bytes k = key;
  k.resize(16);
  hmac h;
  h.writeFileHmac((u8_t)hmode, fp, k.data(), (u8_t)hash_mark, (u8_t)write_mark, file.size());
  fclose(fp);
  return f.d;
}

// ------------------------------------------------------------------------------------------------
// AES, tables, modes
// `off` (0..15): address residue of the block handed to the library (the pipeline's own blocks are 16-aligned;
// an API caller's need not be). The bytes around the block are canaries: the call must not touch them.
static thread_local const char *g_canary_msg = nullptr;
const char *canary_report()
{
  const char *m = g_canary_msg;
  g_canary_msg = nullptr;
  return m;
}
struct OffBlock
{
  alignas(16) u8_t raw[64];
  u8_t *p;
  OffBlock(const uint8_t *block, int off)
  {
    memset(raw, 0xA7, sizeof raw);
    p = raw + 16 + (off & 15);
    memcpy(p, block, 16);
  }
  void out(uint8_t *block)
  {
    memcpy(block, p, 16);
    for (u8_t *q = raw; q < raw + sizeof raw; q++)
      if ((q < p || q >= p + 16) && *q != 0xA7)
        g_canary_msg = "bytes outside the 16-byte block were written";
  }
};
// The caller's key buffer does not outlive the construction of the handle: it is overwritten right afterwards (a
// caller that zeroises its key once the cipher object exists). The handle must go on computing AES under the key it
// was built with.
void aes_encrypt_block(const uint8_t key[16], uint8_t block[16], int off)
{
  OffBlock b(block, off);
  u8_t kb[16];
  memcpy(kb, key, 16);
  encryaes e(kb);
  memset(kb, 0x3c, sizeof kb);
  e.runaes_128bit(b.p);
  b.out(block);
}
void aes_decrypt_block(const uint8_t key[16], uint8_t block[16], int off)
{
  OffBlock b(block, off);
  u8_t kb[16];
  memcpy(kb, key, 16);
  decryaes d(kb);
  memset(kb, 0xc3, sizeof kb);
  d.runaes_128bit(b.p);
  b.out(block);
}
template <class H>
static std::vector<bytes> aes_handles_t(int nslots, const std::vector<AesHOp> &ops, bool *copyable)
{
  constexpr bool can_copy = std::is_copy_constructible<H>::value && std::is_copy_assignable<H>::value;
  if (copyable)
    *copyable = can_copy;
  std::vector<H *> slot((size_t)nslots, nullptr);
  std::vector<u8_t *> keybufs;
  std::vector<bytes> res;
  for (const AesHOp &o : ops)
  {
    if (o.a < 0 || o.a >= nslots)
      continue;
    H *&A = slot[(size_t)o.a];
    H *B = (o.b >= 0 && o.b < nslots) ? slot[(size_t)o.b] : nullptr;
    switch (o.op)
    {
    case 0:
    {
      // the key is handed over in a buffer of its own, which is overwritten after the construction and released at
      // once (odd o.b) or at the end of the script
      u8_t *kb = new u8_t[16];
      memcpy(kb, o.key.data(), 16);
      if (A)
      {
        A->~H();
        new (A) H(kb); // same storage, another key
      }
      else
        A = new H(kb);
      memset(kb, 0x99, 16);
      if (o.b & 1)
        delete[] kb;
      else
        keybufs.push_back(kb);
      break;
    }
    case 1:
      if constexpr (can_copy)
        if (B && B != A)
        {
          H *n = new H(*B);
          delete A;
          A = n;
        }
      break;
    case 2:
      if constexpr (can_copy)
        if (A && B)
          *A = *B;
      break;
    case 3:
      delete A;
      A = nullptr;
      break;
    case 4:
      if (A)
      {
        OffBlock b(o.block.data(), 0);
        A->runaes_128bit(b.p);
        bytes out(16);
        b.out(out.data());
        res.push_back(out);
      }
      else
        res.push_back(bytes());
      break;
    }
  }
  for (H *h : slot)
    delete h;
  for (u8_t *k : keybufs)
    delete[] k;
  return res;
}
std::vector<bytes> aes_handles(bool enc, int nslots, const std::vector<AesHOp> &ops, bool *copyable)
{
  return enc ? aes_handles_t<encryaes>(nslots, ops, copyable) : aes_handles_t<decryaes>(nslots, ops, copyable);
}
const uint8_t *tab_sbox() { return s_box; }
const uint8_t *tab_rsbox() { return rs_box; }
const uint8_t *tab_log() { return Logtable; }
const uint8_t *tab_alog() { return Alogtable; }
const uint8_t *tab_rc() { return RC; }
uint8_t gmul(int u, uint8_t v) { return Gmul(u, v); }

struct ModeH
{
  u8_t key[16];
  u8_t iv[20];
  Aesmode *m;
};
void *mode_new(bool enc, int type, const uint8_t key[16], const uint8_t iv[16])
{
  ModeH *h = new ModeH;
  memcpy(h->key, key, 16);
  memset(h->iv, 0, sizeof h->iv);
  memcpy(h->iv, iv, 16);
  {
    // a caller that has made - and discarded - another stream object and its factory from the same key / IV buffers
    // before: building and destroying them must leave the caller's buffers alone
    AesFactory f0(h->key, h->iv);
    Aesmode *t0 = f0.createCryMaster(enc, (u8_t)type);
    delete t0;
  }
  AesFactory f(h->key, h->iv);
  h->m = f.createCryMaster(enc, (u8_t)type);
  if (!h->m)
  {
    delete h;
    return NULL;
  }
  // the buffers the stream object was made from are overwritten: the object has to live on its own copies
  memset(h->key, 0x5c, sizeof h->key);
  memset(h->iv, 0xc5, sizeof h->iv);
  return h;
}
void mode_run(void *hh, uint8_t block[16], int off)
{
  OffBlock b(block, off);
  ((ModeH *)hh)->m->runcry(b.p);
  b.out(block);
}
void mode_run_raw(void *hh, uint8_t *block) { ((ModeH *)hh)->m->runcry(block); }
void mode_free(void *hh)
{
  ModeH *h = (ModeH *)hh;
  delete h->m;
  delete h;
}
struct FacH
{
  u8_t key[16];
  u8_t iv[20];
  AesFactory *f;
};
void *factory_new(const uint8_t key[16], const uint8_t iv[16])
{
  FacH *h = new FacH;
  memcpy(h->key, key, 16);
  memset(h->iv, 0, sizeof h->iv);
  memcpy(h->iv, iv, 16);
  h->f = new AesFactory(h->key);
  h->f->loadiv(h->iv);
  return h;
}
void *factory_make(void *fh, bool enc, int type)
{
  FacH *f = (FacH *)fh;
  Aesmode *m = f->f->createCryMaster(enc, (u8_t)type);
  if (!m)
    return NULL;
  ModeH *h = new ModeH;
  memcpy(h->key, f->key, 16);
  memcpy(h->iv, f->iv, 20);
  h->m = m;
  return h;
}
// in a template, so that the copy expression is discarded (not compiled) when the class is not copyable
template <class F>
static F *copy_if_copyable(F *src)
{
  if constexpr (std::is_copy_constructible<F>::value)
    return new F(*src);
  else
    return nullptr;
}
void *factory_copy(void *fh, const uint8_t iv_for_copy[16], const uint8_t iv_for_source_afterwards[16])
{
  {
    FacH *src = (FacH *)fh;
    AesFactory *cp = copy_if_copyable<AesFactory>(src->f);
    if (!cp)
      return NULL;
    FacH *h = new FacH;
    memcpy(h->key, src->key, 16);
    memset(h->iv, 0, sizeof h->iv);
    memcpy(h->iv, iv_for_copy, 16);
    h->f = cp; // shares the source's key buffer (the class holds a pointer): the copy is freed before the source
    h->f->loadiv(h->iv);
    memcpy(src->iv, iv_for_source_afterwards, 16); // the source moves on to another IV (same buffer, new content) ...
    src->f->loadiv(src->iv);                       // ... and says so
    return h;
  }
}
void factory_loadiv(void *fh, const uint8_t iv[16])
{
  FacH *f = (FacH *)fh;
  memcpy(f->iv, iv, 16);
  f->f->loadiv(f->iv);
}
void factory_free(void *fh)
{
  FacH *f = (FacH *)fh;
  delete f->f;
  delete f;
}

// ------------------------------------------------------------------------------------------------
// base64
std::string b64_encode(const bytes &in, size_t out_cap, bool &terminated, size_t &written_upto)
{
  u8_t *src = new u8_t[in.size() ? in.size() : 1];
  if (!in.empty())
    memcpy(src, in.data(), in.size());
  u8_t *out = new u8_t[out_cap ? out_cap : 1];
  memset(out, 0xA5, out_cap);
  hex_to_base64(src, (int)in.size(), out);
  terminated = false;
  std::string s;
  for (size_t i = 0; i < out_cap; i++)
  {
    if (out[i] == 0)
    {
      terminated = true;
      break;
    }
    s += (char)out[i];
  }
  written_upto = 0;
  for (size_t i = 0; i < out_cap; i++)
    if (out[i] != 0xA5)
      written_upto = i + 1;
  delete[] src;
  delete[] out;
  return s;
}
bytes b64_decode(const std::string &in, int len, size_t out_cap)
{
  u8_t *src = new u8_t[in.size() + 1];
  memcpy(src, in.c_str(), in.size() + 1);
  u8_t *out = new u8_t[out_cap ? out_cap : 1];
  memset(out, 0xA5, out_cap);
  base64_to_hex(src, len, out);
  bytes r(out, out + out_cap);
  delete[] src;
  delete[] out;
  return r;
}
bool b64_valid_key(const std::string &s)
{
  u8_t *src = new u8_t[s.size() + 1];
  memcpy(src, s.c_str(), s.size() + 1);
  bool r = is_valid_b64(src, (int)s.size());
  delete[] src;
  return r;
}
bool cli_key_path(const std::string &s, bytes &key_out)
{
  std::vector<std::string> av = {"wencry", "-V", "-k", s};
  std::vector<char *> argv;
  for (auto &a : av)
    argv.push_back(strdup(a.c_str()));
  argv.push_back(NULL);
  // argv strings are never freed: a process' argv lives as long as the process, and getopt keeps a
  // pointer into the last element between calls
  char **keep = (char **)malloc(sizeof(char *) * argv.size());
  memcpy(keep, argv.data(), sizeof(char *) * argv.size());
  u8_t *vals = get_v_opt((int)av.size(), keep);
  if (!vals)
    return false;
  vpak_t *v = (vpak_t *)vals;
  key_out.assign(v->key, v->key + 16);
  delete[] v->key;
  delete v;
  return true;
}

} // namespace wapi

extern int wencry_cli_main(int argc, char *argv[]);
static long g_fake_time = 0;
// wencry seeds rand() with time(NULL) for generated keys and IV seeds; C15 compares a step inside a
// history with the same step in a fresh process, so the clock (the one legitimate difference) is pinned
extern "C" time_t time(time_t *t)
{
  time_t v;
  if (g_fake_time)
    v = (time_t)g_fake_time;
  else
  {
    struct timespec ts;
    clock_gettime(CLOCK_REALTIME, &ts);
    v = ts.tv_sec;
  }
  if (t)
    *t = v;
  return v;
}
namespace wapi
{
void set_fake_time(long t) { g_fake_time = t; }
void set_sizes(int chunk, int refill_units)
{
  PipeCfg pc;
  pc.chunk = chunk;
  set_chunk(pc);
  set_refill(refill_units);
}
int cli_run(const std::vector<std::string> &av, const PipeCfg &pc, size_t nblocks, SchedOut *so)
{
  OpOut o;
  int rc = -99;
  PipeCfg p2 = pc;
  p2.T = 4;
  with_sched(p2, nblocks, o, [&] { rc = cli_main(av); });
  if (so)
    *so = o.sched;
  return rc;
}
int cli_main(const std::vector<std::string> &av)
{
  std::vector<char *> argv;
  for (auto &a : av)
    argv.push_back(strdup(a.c_str()));
  argv.push_back(NULL);
  // never freed: argv of a real process lives as long as the process (getopt points into it between calls)
  char **keep = (char **)malloc(sizeof(char *) * argv.size());
  memcpy(keep, argv.data(), sizeof(char *) * argv.size());
  int r = wencry_cli_main((int)av.size(), keep);
  return r;
}
} // namespace wapi
