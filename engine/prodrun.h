// Production-size runs shared by C01 (round trip) and C02 (format): the CLI binary built with the guard off.
#pragma once
#include "pipe.h"
#include "spawn.h"

// production constants (guard off, 16 MiB chunks, 4 real threads): the CLI binary encrypts and decrypts
// files of k*16 MiB + d bytes; the reference decrypts what it wrote
static Verdict run_prod(const Case &c, bool format_only = false)
{
  Verdict v;
  const size_t CH = 1u << 24;
  long k = c.geti("k"), d = c.geti("d");
  int cm = (int)c.geti("cmode"), hm = (int)c.geti("hmode");
  size_t len = (size_t)((long)k * (long)CH + d);
  const char *b1 = getenv("WENCRY_CLI");
  if (!b1)
  {
    Verdict f = Verdict::fail("WENCRY_CLI not set");
    f.infra = true;
    return f;
  }
  const char *sroot = getenv("VERIF_SCRATCH");
  std::string root = sroot ? sroot : "/verif/.scratch";
  mkdir(root.c_str(), 0755);
  static uint64_t seq = 0;
  std::string dir = root + "/c01-" + std::to_string(getpid()) + "-" + std::to_string(seq++);
  mkdir(dir.c_str(), 0755);
  struct Cleaner
  {
    std::string d;
    ~Cleaner() { rm_rf(d); }
  } cleaner{dir};
  bytes P = expand((uint64_t)(k * 1000 + d + 77), len, 0);
  if (len)
    P[len - 1] = (uint8_t)c.geti("lastbyte", P[len - 1]); // the last byte doubles as a would-be pad length
  bytes key = expand(4242 + k, 16, 0);
  write_file(dir + "/in.bin", std::string(P.begin(), P.end()));
  std::string ks = ref::b64_encode(key.data(), 16);
  v.nontrivial = true;
  v.classes.push_back("production_16MiB_chunks");
  v.classes.push_back("chunks=" + std::to_string((len / 16 + 1) * 16 / CH + (((len / 16 + 1) * 16) % CH ? 1 : 0)));
  auto bad = [&](const std::string &m) {
    Verdict f = Verdict::fail("production build, |P| = " + std::to_string(k) + "*16MiB" + (d >= 0 ? "+" : "") + std::to_string(d) + ", cmode " + std::to_string(cm) + ", hmode " + std::to_string(hm) + ": " + m);
    f.nontrivial = true;
    f.classes = v.classes;
    return f;
  };
  RunRes r1 = spawn(b1, {"-e", "-i", "in.bin", "-o", "out.wenc", "-k", ks, "--cmode", std::to_string(cm), "--hmode", std::to_string(hm), "-n"}, dir);
  if (r1.timed_out)
    return v;
  if (r1.signaled || r1.code != 0)
    return bad("encryption " + (r1.signaled ? "killed by signal " + std::to_string(r1.sig) : "exit status " + std::to_string(r1.code)));
  if (format_only)
    goto format;
  {
  RunRes r2 = spawn(b1, {"-d", "-i", "out.wenc", "-o", "back.bin", "-k", ks, "-n"}, dir);
  if (r2.timed_out)
    return v;
  if (r2.signaled || r2.code != 0)
    return bad("decryption of the file just written " + (r2.signaled ? "killed by signal " + std::to_string(r2.sig) : "exit status " + std::to_string(r2.code)));
  std::string back = read_file(dir + "/back.bin");
  if (back.size() != P.size())
    return bad("decrypted length " + std::to_string(back.size()) + " != " + std::to_string(P.size()));
  if (memcmp(back.data(), P.data(), P.size()) != 0)
    return bad("decrypted bytes differ from the plaintext");
  back.clear();
  back.shrink_to_fit();
  }
format:
  std::string of = read_file(dir + "/out.wenc");
  bytes ob(of.begin(), of.end());
  of.clear();
  of.shrink_to_fit();
  size_t want_len = 48 + 20 * 4 + 16 * (len / 16 + 1);
  if (ob.size() != want_len)
    return bad("file length " + std::to_string(ob.size()) + " != 48+20T+16(floor(n/16)+1) = " + std::to_string(want_len));
  ref::Parsed pr = ref::parse_file(ob, key, 4, CH);
  if (pr.status != 0 || pr.plain != P)
    return bad("the reference (independent format specification, T=4, 16 MiB chunks dealt round-robin) does not decrypt the written file to the plaintext: status " + std::to_string(pr.status));
  v.distinct = fnv64("prod" + std::to_string(k) + "/" + std::to_string(d) + "/" + std::to_string(cm) + "/" + std::to_string(hm));
  return v;
}

