// libFuzzer targets (coverage-guided, in-process, semantic oracle inside the target).
//   -DFUZZ_C11 : bytes -> (T, key selector, input file) -> execute_verify + execute_decrypt under the
//                deterministic scheduler (canonical schedule) ; oracle = c11_judge
//   -DFUZZ_C16 : bytes -> candidate key string -> the C16 property body (validator / decoder / -k path)
// Built with -fsanitize=fuzzer,address,undefined; /repo's TUs with fuzzer-no-link so that coverage of
// wencry guides the search. A violation writes a replay file in the harness format and traps.
#include "../harness.h"
#include "../tamper.h"
#include <unistd.h>
#include <fcntl.h>
#include <unordered_set>

static std::string g_out;   // directory for replay files and stats
static int g_job = 0;
static uint64_t g_execs = 0, g_skipped = 0;
static std::unordered_set<uint64_t> g_nt;
static std::string g_sample[4];

static void dump_stats()
{
  if (g_out.empty())
    return;
  std::string j = "{\"execs\": " + std::to_string(g_execs) + ", \"skipped_out_of_domain\": " + std::to_string(g_skipped) + ", \"nontrivial\": " + std::to_string(g_nt.size()) + ", \"samples\": [";
  bool first = true;
  for (auto &s : g_sample)
    if (!s.empty())
    {
      j += (first ? "\"" : ", \"") + json_escape(s) + "\"";
      first = false;
    }
  j += "]}\n";
  write_file(g_out + "/fuzz." + std::to_string(g_job) + ".json", j);
  std::string nt;
  for (uint64_t h : g_nt)
    nt.append((const char *)&h, 8);
  write_file(g_out + "/fuzz." + std::to_string(g_job) + ".nt", nt);
}

static void violation(const std::string &prop, const Case &c, const std::string &msg)
{
  std::string t = "# property=" + prop + "\n# " + msg + "\n" + c.text();
  std::string path = g_out + "/fuzzviol." + std::to_string(g_job) + "." + std::to_string(fnv64(t)) + ".replay";
  write_file(path, t);
  fprintf(stderr, "FUZZ-VIOLATION replay=%s msg=%s\n", path.c_str(), msg.c_str());
  dump_stats();
  __builtin_trap();
}

extern "C" int LLVMFuzzerInitialize(int *argc, char ***argv)
{
  (void)argc;
  (void)argv;
  const char *o = getenv("FUZZ_OUT");
  g_out = o ? o : ".";
  const char *j = getenv("FUZZ_JOB");
  g_job = j ? atoi(j) : 0;
  const char *k = getenv("FUZZ_KNOWN");
  load_known(k ? k : "/verif/KNOWN_FINDINGS.txt");
  wapi::quiet_stdout();
  atexit(dump_stats);
  return 0;
}

#ifdef FUZZ_C11
#define KEYA FUZZ_KEYA
extern "C" int LLVMFuzzerTestOneInput(const uint8_t *data, size_t size)
{
  if (size < 2)
    return 0;
  g_execs++;
  int T = 1 + data[0] % 4;
  bytes key(KEYA, KEYA + 16);
  if (data[1] & 1)
    key[5] ^= 0x80; // a wrong key for the corpus files
  int chunk = (data[1] & 2) ? 16 : 32;
  bytes file(data + 2, data + size);
  // domain of C11: files carrying a valid tag that were not produced by encryption are excluded. The
  // fuzzer easily makes one by changing the worker count T under which an authentic corpus file is read
  // (the tag does not depend on T): then the body [48+20T,EOF) is no longer a whole number of blocks.
  if (ref_authentic(file, key))
  {
    long body = (long)file.size() - 48 - 20L * T;
    if (body < 16 || body % 16 != 0)
    {
      g_skipped++;
      return 0;
    }
  }
  wapi::PipeCfg pc;
  pc.T = T;
  pc.chunk = chunk;
  // a deadlock or step-bound hit ends the process through the scheduler's fatal handler (exit 42/43),
  // which libFuzzer reports as a crash with this input saved
  wapi::OpOut v = wapi::verify(file, key, pc, true);
  wapi::OpOut d = wapi::decrypt(file, key, pc);
  DV r;
  r.evaluated = true;
  r.vret = v.ret;
  r.dret = d.ret;
  r.d_writes = d.out_writes;
  r.d_written_bytes = d.out_written_bytes;
  r.dout = d.out;
  bool magic = file.size() >= 8 && file[0] == 0xC3 && file[1] == 0xA5;
  if (magic)
  {
    uint64_t h = fnv64(data, size);
    if (g_nt.size() < 4000000)
      g_nt.insert(h);
    if (g_sample[g_nt.size() % 4].empty() || (g_execs % 50000) == 0)
      g_sample[g_nt.size() % 4] = "T=" + std::to_string(T) + " chunk=" + std::to_string(chunk) + " file=" + hex(file).substr(0, 200) + (file.size() > 100 ? "..." : "") + " (" + std::to_string(file.size()) + " bytes) accepted=" + std::to_string(d.ret);
  }
  std::string m = c11_judge(file, key, T, r);
  if (m.empty() && (v.out_writes || !v.in_same || !d.in_same))
    m = "verification wrote output or an operation modified its input";
  if (!m.empty())
  {
    Case c;
    c.set("kind", "file");
    c.setb("file", file);
    c.setb("key", key);
    c.seti("T", T);
    c.seti("chunk", chunk);
    violation("C11", c, m);
  }
  return 0;
}
#endif

#ifdef FUZZ_C16
extern "C" int LLVMFuzzerTestOneInput(const uint8_t *data, size_t size)
{
  if (size > 64)
    return 0;
  g_execs++;
  static const Prop *p = find_prop("C16");
  bytes s(data, data + size);
  for (auto &b : s)
    if (!b)
      b = 'A'; // argv strings carry no NUL
  Case c;
  c.set("kind", "key");
  c.setb("s", s);
  Verdict v = p->run(c);
  if (v.nontrivial)
  {
    if (g_nt.size() < 4000000)
      g_nt.insert(fnv64(data, size));
    if (g_sample[g_nt.size() % 4].empty())
      g_sample[g_nt.size() % 4] = "candidate=" + json_escape(std::string(s.begin(), s.end()));
  }
  if (!v.ok && v.known.empty())
    violation("C16", c, v.msg);
  return 0;
}
#endif
