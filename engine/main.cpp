// Harness entry point: one process = one shard of one property (or one replay).
#include "harness.h"
#include "gen.h"
#include <unistd.h>
#include <fcntl.h>
#include <time.h>
#include <sys/mman.h>
#include <sys/wait.h>

static std::string arg(int argc, char **argv, const char *name, const char *def)
{
  for (int i = 1; i + 1 < argc; i++)
    if (!strcmp(argv[i], name))
      return argv[i + 1];
  return def;
}
static bool flag(int argc, char **argv, const char *name)
{
  for (int i = 1; i < argc; i++)
    if (!strcmp(argv[i], name))
      return true;
  return false;
}

int main(int argc, char **argv)
{
  wapi::quiet_stdout();
  setvbuf(stdout, NULL, _IOLBF, 0);
  Ctx &ctx = g_ctx;
  ctx.prop = arg(argc, argv, "--prop", "");
  ctx.tier = arg(argc, argv, "--tier", "quick");
  ctx.shard = atoi(arg(argc, argv, "--shard", "0").c_str());
  ctx.nshards = atoi(arg(argc, argv, "--nshards", "1").c_str());
  ctx.outdir = arg(argc, argv, "--out", ".");
  ctx.seed = strtoull(arg(argc, argv, "--seed", "1").c_str(), NULL, 10);
  ctx.mode = arg(argc, argv, "--mode", "");
  ctx.budget_s = atof(arg(argc, argv, "--budget", "0").c_str());
  {
    struct timespec tb;
    clock_gettime(CLOCK_MONOTONIC, &tb);
    ctx.t_start = tb.tv_sec + tb.tv_nsec / 1e9;
  }
  load_known(arg(argc, argv, "--known", "/verif/KNOWN_FINDINGS.txt"));
  if (flag(argc, argv, "--list"))
  {
    for (auto &id : list_props())
      printf("%s\n", id.c_str());
    return 0;
  }
  const Prop *p = find_prop(ctx.prop);
  if (!p)
  {
    fprintf(stderr, "unknown property %s\n", ctx.prop.c_str());
    return 2;
  }
  std::string errlog = ctx.outdir + "/" + ctx.prop + ".shard" + std::to_string(ctx.shard) + ".stderr";
  std::string replay = arg(argc, argv, "--replay", "");
  if (!replay.empty())
  {
    std::string t = read_file(replay);
    if (t.empty())
    {
      fprintf(stderr, "cannot read %s\n", replay.c_str());
      return 2;
    }
    Case c = Case::parse(t);
    Verdict v = p->run(c);
    if (v.infra)
    {
      printf("REPLAY infra: %s\n", v.msg.c_str());
      return 2;
    }
    if (!v.ok && v.known.empty())
    {
      printf("REPLAY fail: %s\n", v.msg.c_str());
      return 1;
    }
    if (!v.known.empty())
      printf("REPLAY known-finding %s: %s\n", v.known.c_str(), v.msg.c_str());
    else
      printf("REPLAY pass\n");
    return 0;
  }
  g_sh = (Shared *)mmap(NULL, sizeof(Shared), PROT_READ | PROT_WRITE, MAP_SHARED | MAP_ANONYMOUS, -1, 0);
  if (g_sh == MAP_FAILED)
    g_sh = nullptr;
  if (g_sh && !flag(argc, argv, "--no-supervisor"))
  {
    g_sh->evals = 0;
    g_sh->len = 0;
    fflush(stdout);
    pid_t pid = fork();
    if (pid > 0)
    {
      int st = 0;
      while (waitpid(pid, &st, 0) < 0)
      {
      }
      if (WIFEXITED(st) && (WEXITSTATUS(st) == 0 || WEXITSTATUS(st) == 1 || WEXITSTATUS(st) == 2))
        return WEXITSTATUS(st);
      // the shard died inside a case: that case is the violation
      std::string how = WIFSIGNALED(st) ? "killed by signal " + std::to_string(WTERMSIG(st)) : "exited with code " + std::to_string(WEXITSTATUS(st)) + " (sanitizer report)";
      Case c = Case::parse(std::string(g_sh->text, g_sh->len));
      Verdict v = Verdict::fail("process " + how + " while executing this case (see " + errlog + ")");
      ctx.stats.evaluations = g_sh->evals;
      ctx.stats.violations = 1;
      ctx.stats.first_violation_msg = v.msg;
      ctx.stats.info["shard_crashed"] = how;
      std::string path = write_replay(ctx, c, v, "crash");
      printf("FAIL replay=%s msg=%s\n", path.c_str(), v.msg.c_str());
      write_stats(ctx.stats, ctx.outdir, ctx.prop, ctx.shard);
      return 1;
    }
  }
  g_child_stderr_fd = open(errlog.c_str(), O_WRONLY | O_CREAT | O_TRUNC, 0644);
  if (g_child_stderr_fd >= 0)
    dup2(g_child_stderr_fd, 2); // sanitizer reports of this shard go to the log as well
  struct timespec t0;
  clock_gettime(CLOCK_MONOTONIC, &t0);
  bool ok = true;
  if (p->fixed && !flag(argc, argv, "--gen-only"))
    p->fixed(ctx);
  if (ctx.stats.violations)
    ok = false;
  long cases = atol(arg(argc, argv, "--cases", "-1").c_str());
  if (cases < 0)
    cases = (ctx.thorough() ? p->thorough_cases : p->quick_cases) / ctx.nshards;
  if (ok && p->gen && cases > 0 && !flag(argc, argv, "--fixed-only"))
  {
    uint64_t s = mix64(ctx.seed * 1000003ull + fnv64(ctx.prop) + (uint64_t)ctx.shard * 7919ull);
    std::string params = "seed=" + std::to_string(s) + " max_success=" + std::to_string(cases) + " max_size=" + std::to_string(p->max_size) + " max_discard_ratio=20";
    setenv("RC_PARAMS", params.c_str(), 1);
    Verdict lastfail;
    Case lastcase;
    bool stop_shrinking = false;
    bool r = rc::check(p->id, [&] {
      if (stop_shrinking)
        return; // every shrink candidate "passes": rapidcheck keeps the case as found
      if (ctx.over_budget())
      {
        ctx.stats.info["budget_exhausted"] = "generation cut short by the wall-clock budget";
        return; // inconclusive for the remaining cases, never a violation
      }
      Case c = p->gen();
      set_current(c);
      Verdict v = p->run(c);
      ctx.stats.note(c, v);
      if (v.infra)
      {
        ctx.stats.info["infra_error"] = v.msg;
        return;
      }
      if (!v.ok && v.known.empty())
      {
        lastfail = v;
        lastcase = c;
        write_replay(ctx, c, v, "gen"); // the last failing execution is the shrunk one
        if (v.slow)
          stop_shrinking = true;
        RC_FAIL(v.msg);
      }
    });
    if (!r)
    {
      ok = false;
      ctx.stats.violations++;
      if (ctx.stats.first_violation_msg.empty())
        ctx.stats.first_violation_msg = lastfail.msg;
      std::string path = ctx.outdir + "/" + ctx.prop + ".shard" + std::to_string(ctx.shard) + ".gen.replay";
      printf("FAIL replay=%s msg=%s\n", path.c_str(), lastfail.msg.substr(0, 300).c_str());
    }
  }
  struct timespec t1;
  clock_gettime(CLOCK_MONOTONIC, &t1);
  ctx.stats.info["wall_s"] = std::to_string((t1.tv_sec - t0.tv_sec) + (t1.tv_nsec - t0.tv_nsec) / 1e9);
  write_stats(ctx.stats, ctx.outdir, ctx.prop, ctx.shard);
  if (ctx.stats.info.count("infra_error"))
    return 2;
  return ok ? 0 : 1;
}
