// Harness entry point: one process = one shard of one property (or one replay).
#include "harness.h"
#include "gen.h"
#include <unistd.h>
#include <fcntl.h>
#include <time.h>
#include <sys/mman.h>
#include <sys/wait.h>

Ctx g_ctx;
// shared with the supervising parent: the case being executed (so that a crash of the whole shard,
// e.g. a sanitizer abort in a property that does not fork per case, still yields a replay file)
struct Shared
{
  volatile uint64_t evals;
  volatile uint32_t len;
  char text[1 << 20];
};
static Shared *g_sh = nullptr;
static void set_current(const Case &c)
{
  if (!g_sh)
    return;
  std::string t = c.text();
  uint32_t n = (uint32_t)std::min(t.size(), sizeof(g_sh->text) - 1);
  memcpy(g_sh->text, t.data(), n);
  g_sh->len = n;
  g_sh->evals++;
}
static std::vector<Prop> &props()
{
  static std::vector<Prop> v;
  return v;
}
void register_prop(const Prop &p) { props().push_back(p); }
const Prop *find_prop(const std::string &id)
{
  for (auto &p : props())
    if (p.id == id)
      return &p;
  return nullptr;
}
static std::set<std::string> g_listed;
bool finding_listed(const std::string &prop, const std::string &key) { return g_listed.count(prop + "/" + key) > 0; }
static void load_known(const std::string &path)
{
  std::string t = read_file(path);
  size_t i = 0;
  while (i < t.size())
  {
    size_t e = t.find('\n', i);
    if (e == std::string::npos)
      e = t.size();
    std::string line = t.substr(i, e - i);
    i = e + 1;
    if (line.rfind("finding:", 0) != 0)
      continue;
    size_t p = line.find("property="), k = line.find("key=");
    if (p == std::string::npos || k == std::string::npos)
      continue;
    std::string prop = line.substr(p + 9, line.find(' ', p) - p - 9);
    std::string key = line.substr(k + 4, line.find(' ', k) - k - 4);
    g_listed.insert(prop + "/" + key);
  }
}

bytes expand(uint64_t seed, size_t n, int style)
{
  bytes b(n);
  Sm64 r(seed);
  switch (style)
  {
  case 1: // constant fill
  {
    uint8_t c = (uint8_t)r.next();
    for (auto &x : b)
      x = c;
    break;
  }
  case 2: // counter
  {
    uint8_t c = (uint8_t)r.next();
    for (size_t i = 0; i < n; i++)
      b[i] = (uint8_t)(c + i);
    break;
  }
  case 3: // every 16-byte block identical
  {
    uint8_t blk[16];
    for (auto &x : blk)
      x = (uint8_t)r.next();
    for (size_t i = 0; i < n; i++)
      b[i] = blk[i & 15];
    break;
  }
  default:
    for (size_t i = 0; i < n; i += 8)
    {
      uint64_t v = r.next();
      for (size_t j = 0; j < 8 && i + j < n; j++)
        b[i + j] = (uint8_t)(v >> (8 * j));
    }
  }
  return b;
}

std::string describe_child(const ChildResult &r) { return r.describe(); }

static int g_replay_seq = 0;
static std::string write_replay(const Ctx &ctx, const Case &c, const Verdict &v, const char *kind)
{
  std::string path = ctx.outdir + "/" + ctx.prop + ".shard" + std::to_string(ctx.shard) + "." + kind + ".replay";
  std::string t = "# property=" + ctx.prop + "\n# " + v.msg.substr(0, 400) + "\n";
  for (auto &ch : t)
    if (ch == '\r')
      ch = ' ';
  // keep the comment on one line
  std::string m = v.msg.substr(0, 400);
  for (auto &ch : m)
    if (ch == '\n' || ch == '\r')
      ch = ' ';
  t = "# property=" + ctx.prop + "\n# " + m + "\n" + (v.replay_text.empty() ? c.text() : v.replay_text);
  write_file(path, t);
  (void)g_replay_seq;
  return path;
}

Verdict eval_fixed(const Prop &p, Ctx &ctx, const Case &c)
{
  set_current(c);
  Verdict v = p.run(c);
  ctx.stats.note(c, v);
  if (v.infra)
  {
    fprintf(stderr, "INFRA %s: %s\n", p.id.c_str(), v.msg.c_str());
    ctx.stats.info["infra_error"] = v.msg;
  }
  else if (!v.ok && v.known.empty())
  {
    ctx.stats.violations++;
    if (ctx.stats.first_violation_msg.empty())
    {
      ctx.stats.first_violation_msg = v.msg;
      std::string path = write_replay(ctx, c, v, "fixed");
      printf("FAIL replay=%s msg=%s\n", path.c_str(), v.msg.substr(0, 300).c_str());
      fflush(stdout);
    }
  }
  return v;
}

static std::string arg(int argc, char **argv, const char *name, const char *def)
{
  for (int i = 1; i + 1 < argc; i++)
    if (!strcmp(argv[i], name))
      return argv[i + 1];
  return def;
}
static bool flag(int argc, char **argv, const char *name)
{
  for (int i = 1; i < argc; i++)
    if (!strcmp(argv[i], name))
      return true;
  return false;
}

int main(int argc, char **argv)
{
  wapi::quiet_stdout();
  setvbuf(stdout, NULL, _IOLBF, 0);
  Ctx &ctx = g_ctx;
  ctx.prop = arg(argc, argv, "--prop", "");
  ctx.tier = arg(argc, argv, "--tier", "quick");
  ctx.shard = atoi(arg(argc, argv, "--shard", "0").c_str());
  ctx.nshards = atoi(arg(argc, argv, "--nshards", "1").c_str());
  ctx.outdir = arg(argc, argv, "--out", ".");
  ctx.seed = strtoull(arg(argc, argv, "--seed", "1").c_str(), NULL, 10);
  ctx.mode = arg(argc, argv, "--mode", "");
  load_known(arg(argc, argv, "--known", "/verif/KNOWN_FINDINGS.txt"));
  if (flag(argc, argv, "--list"))
  {
    for (auto &p : props())
      printf("%s\n", p.id.c_str());
    return 0;
  }
  const Prop *p = find_prop(ctx.prop);
  if (!p)
  {
    fprintf(stderr, "unknown property %s\n", ctx.prop.c_str());
    return 2;
  }
  std::string errlog = ctx.outdir + "/" + ctx.prop + ".shard" + std::to_string(ctx.shard) + ".stderr";
  std::string replay = arg(argc, argv, "--replay", "");
  if (!replay.empty())
  {
    std::string t = read_file(replay);
    if (t.empty())
    {
      fprintf(stderr, "cannot read %s\n", replay.c_str());
      return 2;
    }
    Case c = Case::parse(t);
    Verdict v = p->run(c);
    if (v.infra)
    {
      printf("REPLAY infra: %s\n", v.msg.c_str());
      return 2;
    }
    if (!v.ok && v.known.empty())
    {
      printf("REPLAY fail: %s\n", v.msg.c_str());
      return 1;
    }
    if (!v.known.empty())
      printf("REPLAY known-finding %s: %s\n", v.known.c_str(), v.msg.c_str());
    else
      printf("REPLAY pass\n");
    return 0;
  }
  g_sh = (Shared *)mmap(NULL, sizeof(Shared), PROT_READ | PROT_WRITE, MAP_SHARED | MAP_ANONYMOUS, -1, 0);
  if (g_sh == MAP_FAILED)
    g_sh = nullptr;
  if (g_sh && !flag(argc, argv, "--no-supervisor"))
  {
    g_sh->evals = 0;
    g_sh->len = 0;
    fflush(stdout);
    pid_t pid = fork();
    if (pid > 0)
    {
      int st = 0;
      while (waitpid(pid, &st, 0) < 0)
      {
      }
      if (WIFEXITED(st) && (WEXITSTATUS(st) == 0 || WEXITSTATUS(st) == 1 || WEXITSTATUS(st) == 2))
        return WEXITSTATUS(st);
      // the shard died inside a case: that case is the violation
      std::string how = WIFSIGNALED(st) ? "killed by signal " + std::to_string(WTERMSIG(st)) : "exited with code " + std::to_string(WEXITSTATUS(st)) + " (sanitizer report)";
      Case c = Case::parse(std::string(g_sh->text, g_sh->len));
      Verdict v = Verdict::fail("process " + how + " while executing this case (see " + errlog + ")");
      ctx.stats.evaluations = g_sh->evals;
      ctx.stats.violations = 1;
      ctx.stats.first_violation_msg = v.msg;
      ctx.stats.info["shard_crashed"] = how;
      std::string path = write_replay(ctx, c, v, "crash");
      printf("FAIL replay=%s msg=%s\n", path.c_str(), v.msg.c_str());
      write_stats(ctx.stats, ctx.outdir, ctx.prop, ctx.shard);
      return 1;
    }
  }
  g_child_stderr_fd = open(errlog.c_str(), O_WRONLY | O_CREAT | O_TRUNC, 0644);
  if (g_child_stderr_fd >= 0)
    dup2(g_child_stderr_fd, 2); // sanitizer reports of this shard go to the log as well
  struct timespec t0;
  clock_gettime(CLOCK_MONOTONIC, &t0);
  bool ok = true;
  if (p->fixed && !flag(argc, argv, "--gen-only"))
    p->fixed(ctx);
  if (ctx.stats.violations)
    ok = false;
  long cases = atol(arg(argc, argv, "--cases", "-1").c_str());
  if (cases < 0)
    cases = (ctx.thorough() ? p->thorough_cases : p->quick_cases) / ctx.nshards;
  if (ok && p->gen && cases > 0 && !flag(argc, argv, "--fixed-only"))
  {
    uint64_t s = mix64(ctx.seed * 1000003ull + fnv64(ctx.prop) + (uint64_t)ctx.shard * 7919ull);
    std::string params = "seed=" + std::to_string(s) + " max_success=" + std::to_string(cases) + " max_size=" + std::to_string(p->max_size) + " max_discard_ratio=20";
    setenv("RC_PARAMS", params.c_str(), 1);
    Verdict lastfail;
    Case lastcase;
    bool r = rc::check(p->id, [&] {
      Case c = p->gen();
      set_current(c);
      Verdict v = p->run(c);
      ctx.stats.note(c, v);
      if (v.infra)
      {
        ctx.stats.info["infra_error"] = v.msg;
        return;
      }
      if (!v.ok && v.known.empty())
      {
        lastfail = v;
        lastcase = c;
        write_replay(ctx, c, v, "gen"); // the last failing execution is the shrunk one
        RC_FAIL(v.msg);
      }
    });
    if (!r)
    {
      ok = false;
      ctx.stats.violations++;
      if (ctx.stats.first_violation_msg.empty())
        ctx.stats.first_violation_msg = lastfail.msg;
      std::string path = ctx.outdir + "/" + ctx.prop + ".shard" + std::to_string(ctx.shard) + ".gen.replay";
      printf("FAIL replay=%s msg=%s\n", path.c_str(), lastfail.msg.substr(0, 300).c_str());
    }
  }
  struct timespec t1;
  clock_gettime(CLOCK_MONOTONIC, &t1);
  ctx.stats.info["wall_s"] = std::to_string((t1.tv_sec - t0.tv_sec) + (t1.tv_nsec - t0.tv_nsec) / 1e9);
  write_stats(ctx.stats, ctx.outdir, ctx.prop, ctx.shard);
  if (ctx.stats.info.count("infra_error"))
    return 2;
  return ok ? 0 : 1;
}
