// Property registry and per-process context shared by all property TUs.
#pragma once
#include "common.h"
#include "wapi.h"
#include "ref/ref.h"

struct Ctx
{
  Stats stats;
  std::string outdir = ".";
  std::string prop;
  std::string tier = "quick";
  int shard = 0, nshards = 1;
  uint64_t seed = 1;
  std::string mode; // optional sub-run selector (--mode)
  double budget_s = 0; // wall-clock budget of this shard (0 = none)
  double t_start = 0;
  bool over_budget() const;
  bool thorough() const { return tier == "thorough"; }
};
extern Ctx g_ctx;

struct Prop
{
  std::string id;
  std::function<Case()> gen;                 // generated cases (uses *rc::gen inside rc::check); may be empty
  std::function<Verdict(const Case &)> run;  // the property body: plain function of the case
  std::function<void(Ctx &)> fixed;          // deterministic enumerations (exhaustive sweeps); may be empty
  long quick_cases = 1000, thorough_cases = 20000; // generated cases over all shards
  int max_size = 100;
  std::string variant;                       // which build runs this property (informational)
};
void register_prop(const Prop &p);
struct PropReg
{
  PropReg(const Prop &p) { register_prop(p); }
};

// evaluate one case of the fixed part: run, count, record violation (returns verdict)
Verdict eval_fixed(const Prop &p, Ctx &ctx, const Case &c);
const Prop *find_prop(const std::string &id);

// known findings listed in KNOWN_FINDINGS.txt (finding: lines only)
bool finding_listed(const std::string &prop, const std::string &key);

// deterministic expansion of a generated 64-bit seed into content (pure function of its arguments)
bytes expand(uint64_t seed, size_t n, int style);
struct Sm64
{
  uint64_t s;
  explicit Sm64(uint64_t x) : s(x) {}
  uint64_t next() { return mix64(s += 0x9E3779B97F4A7C15ull); }
  uint64_t below(uint64_t n) { return n ? next() % n : 0; }
  bytes bytes_(size_t n)
  {
    bytes b(n);
    for (size_t i = 0; i < n; i++)
      b[i] = (uint8_t)(next() >> 24);
    return b;
  }
};

// shard helper for fixed enumerations
inline bool mine(const Ctx &c, uint64_t i) { return (int)(i % (uint64_t)c.nshards) == c.shard; }

std::string describe_child(const ChildResult &r);

// ---- shared with the harness entry point / fuzz targets ----
struct Shared
{
  volatile uint64_t evals;
  volatile uint32_t len;
  char text[1 << 20];
};
extern Shared *g_sh;
void set_current(const Case &c);
void load_known(const std::string &path);
std::string write_replay(const Ctx &ctx, const Case &c, const Verdict &v, const char *kind);
std::vector<std::string> list_props();
