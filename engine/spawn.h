// Spawning the production CLI binary in a scratch directory (shared by C17 and the production-size part of C01).
#pragma once
#include "common.h"
#include <unistd.h>
#include <fcntl.h>
#include <sys/wait.h>
#include <sys/stat.h>
#include <signal.h>
#include <time.h>
#include <dirent.h>

struct RunRes
{
  bool spawned = false, timed_out = false, signaled = false;
  int sig = 0, code = 0;
  std::string out, err;
};

inline void rm_rf(const std::string &d)
{
  DIR *dir = opendir(d.c_str());
  if (dir)
  {
    struct dirent *e;
    while ((e = readdir(dir)))
    {
      std::string n = e->d_name;
      if (n == "." || n == "..")
        continue;
      std::string p = d + "/" + n;
      struct stat st;
      if (lstat(p.c_str(), &st) == 0 && S_ISDIR(st.st_mode))
        rm_rf(p);
      else
        unlink(p.c_str());
    }
    closedir(dir);
  }
  rmdir(d.c_str());
}

inline RunRes spawn(const std::string &bin, const std::vector<std::string> &args, const std::string &cwd)
{
  RunRes r;
  std::string fo = cwd + "/.stdout", fe = cwd + "/.stderr";
  pid_t pid = fork();
  if (pid < 0)
    return r;
  if (pid == 0)
  {
    if (chdir(cwd.c_str()) != 0)
      _exit(126);
    int in = open("/dev/null", O_RDONLY);
    dup2(in, 0);
    int o = open(fo.c_str(), O_WRONLY | O_CREAT | O_TRUNC, 0644);
    dup2(o, 1);
    int e = open(fe.c_str(), O_WRONLY | O_CREAT | O_TRUNC, 0644);
    dup2(e, 2);
    std::vector<char *> av;
    av.push_back(strdup(bin.c_str()));
    for (auto &a : args)
      av.push_back(strdup(a.c_str()));
    av.push_back(NULL);
    execv(bin.c_str(), av.data());
    _exit(127);
  }
  r.spawned = true;
  int st = 0;
  struct timespec ts0;
  clock_gettime(CLOCK_MONOTONIC, &ts0);
  for (;;)
  {
    pid_t w = waitpid(pid, &st, WNOHANG);
    if (w == pid)
      break;
    struct timespec ts1;
    clock_gettime(CLOCK_MONOTONIC, &ts1);
    if (ts1.tv_sec - ts0.tv_sec > 30)
    {
      kill(pid, SIGKILL);
      waitpid(pid, &st, 0);
      r.timed_out = true;
      break;
    }
    usleep(500);
  }
  if (WIFSIGNALED(st))
  {
    r.signaled = true;
    r.sig = WTERMSIG(st);
  }
  else
    r.code = WEXITSTATUS(st);
  r.out = read_file(fo);
  r.err = read_file(fe);
  unlink(fo.c_str());
  unlink(fe.c_str());
  return r;
}


// read a file named by a path RELATIVE to `dir` (as the spawned program saw it): an absolute path built from
// dir + relative path could exceed PATH_MAX although the relative one does not
inline std::string read_rel(const std::string &dir, const std::string &rel)
{
  std::string out;
  int dfd = open(dir.c_str(), O_RDONLY | O_DIRECTORY);
  if (dfd < 0)
    return out;
  int fd = openat(dfd, rel.c_str(), O_RDONLY);
  close(dfd);
  if (fd < 0)
    return out;
  char buf[65536];
  ssize_t n;
  while ((n = read(fd, buf, sizeof buf)) > 0)
    out.append(buf, (size_t)n);
  close(fd);
  return out;
}
