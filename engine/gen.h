// rapidcheck generator helpers. Every random choice goes through rapidcheck so that shrinking and
// RC_PARAMS seed replay work.
#pragma once
#include <rapidcheck.h>
#include "common.h"
namespace g
{
// inRange scales with rapidcheck's size parameter and collapses at small sizes: pin the size.
inline long range(long lo, long hi_excl) { return *rc::gen::resize(100, rc::gen::inRange<long>(lo, hi_excl)); }
inline uint64_t u64() { return *rc::gen::resize(100, rc::gen::arbitrary<uint64_t>()); }
inline bool coin(int pct = 50) { return range(0, 100) < pct; }
template <class T>
inline T oneof(std::initializer_list<T> l)
{
  std::vector<T> v(l);
  return v[(size_t)range(0, (long)v.size())];
}
inline bytes raw(size_t n)
{
  return *rc::gen::resize(100, rc::gen::container<bytes>(n, rc::gen::arbitrary<uint8_t>()));
}
} // namespace g
