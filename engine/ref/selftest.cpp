// Self-test of the reference oracle: standard vectors + randomised cross-check against OpenSSL
// libcrypto. Exit 0 = oracle trusted; anything else is an infrastructure error (never a VIOLATION).
#include "ref.h"
#include <openssl/evp.h>
#include <openssl/hmac.h>
#include <openssl/sha.h>
#include <openssl/md5.h>
#include <cstdio>
#include <cstring>
#include <string>
using namespace ref;
static int fails = 0;
static std::string hx(const bytes &b)
{
  static const char *d = "0123456789abcdef";
  std::string s;
  for (uint8_t c : b)
  {
    s += d[c >> 4];
    s += d[c & 15];
  }
  return s;
}
static bytes uh(const char *s)
{
  bytes b;
  auto v = [](char c) { return c <= '9' ? c - '0' : (c | 32) - 'a' + 10; };
  for (size_t i = 0; s[i] && s[i + 1]; i += 2)
    b.push_back((uint8_t)(v(s[i]) << 4 | v(s[i + 1])));
  return b;
}
#define CHECK(cond, what)                       \
  do                                            \
  {                                             \
    if (!(cond))                                \
    {                                           \
      fails++;                                  \
      fprintf(stderr, "SELFTEST FAIL: %s\n", what); \
    }                                           \
  } while (0)
static uint64_t rs = 0x243F6A8885A308D3ull;
static uint64_t rnd()
{
  rs ^= rs << 13;
  rs ^= rs >> 7;
  rs ^= rs << 17;
  return rs;
}
static bytes rbytes(size_t n)
{
  bytes b(n);
  for (auto &x : b)
    x = (uint8_t)rnd();
  return b;
}
static bytes ossl_cipher(const EVP_CIPHER *c, const bytes &key, const bytes &iv, const bytes &in, bool enc)
{
  EVP_CIPHER_CTX *ctx = EVP_CIPHER_CTX_new();
  EVP_CipherInit_ex(ctx, c, NULL, key.data(), iv.data(), enc ? 1 : 0);
  EVP_CIPHER_CTX_set_padding(ctx, 0);
  bytes out(in.size() + 32);
  int n1 = 0, n2 = 0;
  EVP_CipherUpdate(ctx, out.data(), &n1, in.data(), (int)in.size());
  EVP_CipherFinal_ex(ctx, out.data() + n1, &n2);
  out.resize(n1 + n2);
  EVP_CIPHER_CTX_free(ctx);
  return out;
}
static bytes ossl_hash(int alg, const bytes &m)
{
  const EVP_MD *md = alg == 0 ? EVP_sha1() : alg == 1 ? EVP_md5() : EVP_sha256();
  bytes out(EVP_MAX_MD_SIZE);
  unsigned n = 0;
  EVP_Digest(m.data(), m.size(), out.data(), &n, md, NULL);
  out.resize(n);
  return out;
}
static bytes ossl_hmac(int alg, const bytes &k, const bytes &m)
{
  const EVP_MD *md = alg == 0 ? EVP_sha1() : alg == 1 ? EVP_md5() : EVP_sha256();
  bytes out(EVP_MAX_MD_SIZE);
  unsigned n = 0;
  HMAC(md, k.empty() ? (const void *)"" : (const void *)k.data(), (int)k.size(), m.data(), m.size(), out.data(), &n);
  out.resize(n);
  return out;
}
int main()
{
  // FIPS-197 appendix B and C.1
  {
    bytes k = uh("2b7e151628aed2a6abf7158809cf4f3c"), p = uh("3243f6a8885a308d313198a2e0370734");
    Aes128 a(k.data());
    bytes c(16), d(16);
    a.enc(p.data(), c.data());
    CHECK(hx(c) == "3925841d02dc09fbdc118597196a0b32", "FIPS-197 appendix B");
    a.dec(c.data(), d.data());
    CHECK(d == p, "FIPS-197 appendix B inverse");
    bytes k2 = uh("000102030405060708090a0b0c0d0e0f"), p2 = uh("00112233445566778899aabbccddeeff");
    Aes128 a2(k2.data());
    a2.enc(p2.data(), c.data());
    CHECK(hx(c) == "69c4e0d86a7b0430d8cdb78070b4c55a", "FIPS-197 C.1");
    CHECK(sbox(0x00) == 0x63 && sbox(0x53) == 0xed && sbox(0xff) == 0x16, "S-box spot values");
  }
  // SP 800-38A F.1.1 F.2.1 F.5.1 F.3.13 F.4.1 (AES-128)
  {
    bytes k = uh("2b7e151628aed2a6abf7158809cf4f3c");
    bytes iv = uh("000102030405060708090a0b0c0d0e0f"), ctr = uh("f0f1f2f3f4f5f6f7f8f9fafbfcfdfeff");
    bytes p = uh("6bc1bee22e409f96e93d7e117393172aae2d8a571e03ac9c9eb76fac45af8e5130c81c46a35ce411e5fbc1191a0a52eff69f2445df4f9b17ad2b417be66c3710");
    CHECK(hx(mode_encrypt(ECB, k.data(), iv.data(), p)) == "3ad77bb40d7a3660a89ecaf32466ef97f5d3d58503b9699de785895a96fdbaaf43b1cd7f598ece23881b00e3ed0306887b0c785e27e8ad3f8223207104725dd4", "38A F.1.1 ECB");
    CHECK(hx(mode_encrypt(CBC, k.data(), iv.data(), p)) == "7649abac8119b246cee98e9b12e9197d5086cb9b507219ee95db113a917678b273bed6b8e3c1743b7116e69e222295163ff1caa1681fac09120eca307586e1a7", "38A F.2.1 CBC");
    CHECK(hx(mode_encrypt(CTR, k.data(), ctr.data(), p)) == "874d6191b620e3261bef6864990db6ce9806f66b7970fdff8617187bb9fffdff5ae4df3edbd5d35e5b4f09020db03eab1e031dda2fbe03d1792170a0f3009cee", "38A F.5.1 CTR");
    CHECK(hx(mode_encrypt(CFB, k.data(), iv.data(), p)) == "3b3fd92eb72dad20333449f8e83cfb4ac8a64537a0b3a93fcde3cdad9f1ce58b26751f67a3cbb140b1808cf187a4f4dfc04b05357c5d1c0eeac4c66f9ff7f2e6", "38A F.3.13 CFB128");
    CHECK(hx(mode_encrypt(OFB, k.data(), iv.data(), p)) == "3b3fd92eb72dad20333449f8e83cfb4a7789508d16918f03f53c52dac54ed8259740051e9c5fecf64344f7a82260edcc304c6528f659c77866a510d9c1d6ae5e", "38A F.4.1 OFB");
  }
  // hashes
  {
    bytes abc = {'a', 'b', 'c'}, e;
    CHECK(hx(hash(0, abc)) == "a9993e364706816aba3e25717850c26c9cd0d89d", "SHA-1 abc");
    CHECK(hx(hash(0, e)) == "da39a3ee5e6b4b0d3255bfef95601890afd80709", "SHA-1 empty");
    CHECK(hx(hash(1, abc)) == "900150983cd24fb0d6963f7d28e17f72", "MD5 abc");
    CHECK(hx(hash(1, e)) == "d41d8cd98f00b204e9800998ecf8427e", "MD5 empty");
    CHECK(hx(hash(2, abc)) == "ba7816bf8f01cfea414140de5dae2223b00361a396177a9cb410ff61f20015ad", "SHA-256 abc");
    CHECK(hx(hash(2, e)) == "e3b0c44298fc1c149afbf4c8996fb92427ae41e4649b934ca495991b7852b855", "SHA-256 empty");
    std::string m = "abcdbcdecdefdefgefghfghighijhijkijkljklmklmnlmnomnopnopq";
    bytes mb(m.begin(), m.end());
    CHECK(hx(hash(0, mb)) == "84983e441c3bd26ebaae4aa1f95129e5e54670f1", "SHA-1 56-byte msg");
    CHECK(hx(hash(2, mb)) == "248d6a61d20638b8e5c026930c3e6039a33ce45964ff2167f6ecedd419db06c1", "SHA-256 56-byte msg");
  }
  // RFC 2202 / 4231 test case 2
  {
    bytes k = {'J', 'e', 'f', 'e'};
    std::string m = "what do ya want for nothing?";
    bytes mb(m.begin(), m.end());
    CHECK(hx(hmac(0, k, mb)) == "effcdf6ae5eb2fa2d27416d5f184df9c259a7c79", "RFC 2202 HMAC-SHA1 #2");
    CHECK(hx(hmac(1, k, mb)) == "750c783e6ab0b503eaa86e310a5db738", "RFC 2202 HMAC-MD5 #2");
    CHECK(hx(hmac(2, k, mb)) == "5bdcc146bf60754e6a042426089575c75a003f089d2739839dec58b964ec3843", "RFC 4231 HMAC-SHA256 #2");
  }
  // RFC 4648 section 10
  {
    const char *in[] = {"", "f", "fo", "foo", "foob", "fooba", "foobar"};
    const char *out[] = {"", "Zg==", "Zm8=", "Zm9v", "Zm9vYg==", "Zm9vYmE=", "Zm9vYmFy"};
    for (int i = 0; i < 7; i++)
    {
      CHECK(b64_encode((const uint8_t *)in[i], strlen(in[i])) == out[i], "RFC 4648 encode");
      bytes d;
      CHECK(b64_decode_strict(out[i], d) && std::string(d.begin(), d.end()) == in[i], "RFC 4648 decode");
    }
    bytes d;
    CHECK(!b64_decode_strict("Zh==", d), "strict rejects non-zero trailing bits");
    CHECK(b64_decode_lenient_bits("Zh==", d) && d.size() == 1, "lenient accepts non-zero trailing bits");
    CHECK(!b64_decode_strict("Zg=a", d) && !b64_decode_strict("Z===", d) && !b64_decode_strict("Zg", d), "strict rejects bad padding");
  }
  // randomised cross-check against OpenSSL
  const EVP_CIPHER *ciphers[5] = {EVP_aes_128_ecb(), EVP_aes_128_cbc(), EVP_aes_128_ctr(), EVP_aes_128_cfb128(), EVP_aes_128_ofb()};
  for (int it = 0; it < 2000; it++)
  {
    bytes key = rbytes(16), iv = rbytes(16);
    if (it % 7 == 0)
      for (int j = 16 - (it % 17); j < 16; j++)
        if (j >= 0)
          iv[j] = 0xff; // counter carries
    size_t nb = rnd() % 40;
    bytes p = rbytes(nb * 16);
    for (int m = 0; m < 5; m++)
    {
      bytes c1 = mode_encrypt(m, key.data(), iv.data(), p), c2 = ossl_cipher(ciphers[m], key, iv, p, true);
      CHECK(c1 == c2, "mode encrypt vs OpenSSL");
      bytes d1 = mode_decrypt(m, key.data(), iv.data(), c1);
      CHECK(d1 == p, "mode decrypt inverts");
    }
    size_t n = (it < 400) ? (size_t)it : rnd() % 5000;
    bytes msg = rbytes(n);
    for (int a = 0; a < 3; a++)
    {
      CHECK(hash(a, msg) == ossl_hash(a, msg), "hash vs OpenSSL");
      bytes k = rbytes(it % 100);
      CHECK(hmac(a, k, msg) == ossl_hmac(a, k, msg), "hmac vs OpenSSL");
      // streaming in odd pieces
      Hash h(a);
      size_t o = 0;
      while (o < msg.size())
      {
        size_t t = std::min(msg.size() - o, (size_t)(rnd() % 130));
        h.update(msg.data() + o, t);
        o += t;
      }
      CHECK(h.final() == ossl_hash(a, msg), "streamed hash vs OpenSSL");
    }
    bytes raw = rbytes(rnd() % 100);
    std::string e1 = b64_encode(raw.data(), raw.size());
    bytes e2(4 * ((raw.size() + 2) / 3) + 1);
    int en = EVP_EncodeBlock(e2.data(), raw.data(), (int)raw.size());
    CHECK(e1 == std::string((char *)e2.data(), en), "base64 vs OpenSSL");
    bytes back;
    CHECK(b64_decode_strict(e1, back) && back == raw, "base64 round trip");
  }
  // file format: round trip through the reference itself for every mode
  for (int it = 0; it < 200; it++)
  {
    FileParams fp;
    fp.key = rbytes(16);
    fp.seed = rbytes(rnd() % 70);
    for (auto &c : fp.seed)
      if (!c)
        c = 1;
    fp.cmode = it % 5;
    fp.hmode = it % 3;
    fp.T = 1 + rnd() % 16;
    fp.chunk = 16 * (1 + rnd() % 8);
    bytes p = rbytes(rnd() % 700);
    bytes f = encrypt_file(p, fp);
    CHECK(f.size() == 48 + 20 * (size_t)fp.T + 16 * (p.size() / 16 + 1), "file length formula");
    Parsed r = parse_file(f, fp.key, fp.T, fp.chunk);
    CHECK(r.status == 0 && r.plain == p, "reference file round trip");
    bytes f2 = f;
    f2[f2.size() - 1] ^= 1;
    CHECK(parse_file(f2, fp.key, fp.T, fp.chunk).status == 2, "reference rejects flipped body bit");
  }
  if (fails)
  {
    fprintf(stderr, "reference self-test: %d failures\n", fails);
    return 1;
  }
  printf("reference self-test ok\n");
  return 0;
}
