// Independent reference implementations written from the standards (FIPS-197, SP 800-38A,
// FIPS 180-4, RFC 1321, RFC 2104, RFC 4648) plus the executable specification of the wencry file
// format (property C02). Shares no code with /repo. Trust is earned by ref/selftest.cpp.
#pragma once
#include <cstdint>
#include <cstddef>
#include <string>
#include <vector>
namespace ref
{
typedef std::vector<uint8_t> bytes;

// ---- GF(2^8) and AES-128 ----
uint8_t gf_mul(uint8_t a, uint8_t b); // polynomial x^8+x^4+x^3+x+1
uint8_t gf_inv(uint8_t a);
uint8_t sbox(uint8_t x);     // computed: affine(gf_inv(x))
uint8_t inv_sbox(uint8_t x); // computed inverse
struct Aes128
{
  uint8_t rk[11][16];
  explicit Aes128(const uint8_t key[16]);
  void enc(const uint8_t in[16], uint8_t out[16]) const;
  void dec(const uint8_t in[16], uint8_t out[16]) const;
};

// ---- SP 800-38A modes; data length must be a multiple of 16 ----
enum Mode
{
  ECB = 0,
  CBC = 1,
  CTR = 2,
  CFB = 3,
  OFB = 4
};
// A continuous mode stream (state carried between calls), as the file format needs.
struct ModeStream
{
  Aes128 aes;
  int mode;
  bool encrypt;
  uint8_t reg[16]; // chaining value / counter / feedback register
  ModeStream(const uint8_t key[16], const uint8_t iv[16], int mode, bool encrypt);
  void block(const uint8_t in[16], uint8_t out[16]);
  bytes run(const bytes &in);
};
bytes mode_encrypt(int mode, const uint8_t key[16], const uint8_t iv[16], const bytes &in);
bytes mode_decrypt(int mode, const uint8_t key[16], const uint8_t iv[16], const bytes &in);

// ---- hashes: streaming interface so that multi-GiB messages need not be materialised ----
struct Hash
{
  int alg; // 0 SHA-1, 1 MD5, 2 SHA-256 (wencry's numbering)
  uint32_t h[8];
  uint8_t buf[64];
  uint64_t len; // bytes
  explicit Hash(int alg);
  void update(const uint8_t *p, size_t n);
  bytes final();
  static int hlen(int alg) { return alg == 0 ? 20 : alg == 1 ? 16 : 32; }
};
bytes hash(int alg, const uint8_t *p, size_t n);
inline bytes hash(int alg, const bytes &b) { return hash(alg, b.data(), b.size()); }
bytes hmac(int alg, const bytes &key, const uint8_t *msg, size_t n); // RFC 2104, any key length
inline bytes hmac(int alg, const bytes &key, const bytes &m) { return hmac(alg, key, m.data(), m.size()); }

// ---- base64 (RFC 4648, standard alphabet, '=' padding) ----
std::string b64_encode(const uint8_t *p, size_t n);
bool b64_decode_strict(const std::string &s, bytes &out); // canonical only (rejects bad chars, bad padding, non-zero trailing bits)
bool b64_decode_lenient_bits(const std::string &s, bytes &out); // as strict but ignores non-zero trailing bits

// ---- wencry file format (C02) ----
struct FileParams
{
  bytes key;  // 16 bytes
  bytes seed; // bytes of the seed C string (no NUL)
  int cmode, hmode, T;
  size_t chunk; // bytes per pipeline chunk (multiple of 16)
};
bytes iv_chain(const bytes &seed, int T); // 20*T bytes: SHA1(seed), SHA1(prev), ...
bytes pkcs7_pad(const bytes &p);          // always adds 1..16 bytes
bytes encrypt_file(const bytes &plain, const FileParams &fp);
// Parse + authenticate + decrypt with the reference. status: 0 ok, 1 too short, 2 bad tag, 3 bad mode bytes,
// 4 bad magic, 5 authentic but malformed body (length not multiple of 16 / bad padding)
struct Parsed
{
  int status;
  int cmode, hmode;
  bool tag_ok;
  bytes plain;
};
Parsed parse_file(const bytes &file, const bytes &key, int T, size_t chunk);
// which field holds the first difference between two files of the format (for diagnostics)
std::string first_diff_field(const bytes &a, const bytes &b, int T, size_t chunk, int hlen);
} // namespace ref
