#include "ref.h"
#include <cstring>
namespace ref
{
// ---------------------------------------------------------------- GF(2^8)
uint8_t gf_mul(uint8_t a, uint8_t b)
{
  uint8_t p = 0;
  for (int i = 0; i < 8; i++)
  {
    if (b & 1)
      p ^= a;
    bool hi = a & 0x80;
    a <<= 1;
    if (hi)
      a ^= 0x1b;
    b >>= 1;
  }
  return p;
}
uint8_t gf_inv(uint8_t a)
{
  if (a == 0)
    return 0;
  // a^254
  uint8_t r = 1, base = a;
  int e = 254;
  while (e)
  {
    if (e & 1)
      r = gf_mul(r, base);
    base = gf_mul(base, base);
    e >>= 1;
  }
  return r;
}
static uint8_t rotl8(uint8_t x, int s) { return (uint8_t)((x << s) | (x >> (8 - s))); }
uint8_t sbox(uint8_t x)
{
  uint8_t b = gf_inv(x);
  return b ^ rotl8(b, 1) ^ rotl8(b, 2) ^ rotl8(b, 3) ^ rotl8(b, 4) ^ 0x63;
}
static uint8_t SB[256], ISB[256];
// products with the MixColumns / InvMixColumns coefficients, memoised from gf_mul (speed only)
static uint8_t M2[256], M3[256], M9[256], M11[256], M13[256], M14[256];
static bool tables_ready = false;
static void init_tables()
{
  if (tables_ready)
    return;
  for (int i = 0; i < 256; i++)
    SB[i] = sbox((uint8_t)i);
  for (int i = 0; i < 256; i++)
    ISB[SB[i]] = (uint8_t)i;
  for (int i = 0; i < 256; i++)
  {
    M2[i] = gf_mul((uint8_t)i, 2);
    M3[i] = gf_mul((uint8_t)i, 3);
    M9[i] = gf_mul((uint8_t)i, 9);
    M11[i] = gf_mul((uint8_t)i, 11);
    M13[i] = gf_mul((uint8_t)i, 13);
    M14[i] = gf_mul((uint8_t)i, 14);
  }
  tables_ready = true;
}
uint8_t inv_sbox(uint8_t x)
{
  init_tables();
  return ISB[x];
}

// ---------------------------------------------------------------- AES-128 (FIPS-197)
Aes128::Aes128(const uint8_t key[16])
{
  init_tables();
  uint8_t w[44][4];
  for (int i = 0; i < 4; i++)
    for (int j = 0; j < 4; j++)
      w[i][j] = key[4 * i + j];
  uint8_t rcon = 1;
  for (int i = 4; i < 44; i++)
  {
    uint8_t t[4] = {w[i - 1][0], w[i - 1][1], w[i - 1][2], w[i - 1][3]};
    if (i % 4 == 0)
    {
      uint8_t r0 = t[0];
      t[0] = SB[t[1]] ^ rcon;
      t[1] = SB[t[2]];
      t[2] = SB[t[3]];
      t[3] = SB[r0];
      rcon = gf_mul(rcon, 2);
    }
    for (int j = 0; j < 4; j++)
      w[i][j] = w[i - 4][j] ^ t[j];
  }
  for (int r = 0; r < 11; r++)
    for (int c = 0; c < 4; c++)
      for (int j = 0; j < 4; j++)
        rk[r][4 * c + j] = w[4 * r + c][j];
}
static void add_rk(uint8_t s[16], const uint8_t k[16])
{
  for (int i = 0; i < 16; i++)
    s[i] ^= k[i];
}
static void sub_bytes(uint8_t s[16])
{
  for (int i = 0; i < 16; i++)
    s[i] = SB[s[i]];
}
static void inv_sub_bytes(uint8_t s[16])
{
  for (int i = 0; i < 16; i++)
    s[i] = ISB[s[i]];
}
// state byte (row r, column c) lives at s[r + 4c]
static void shift_rows(uint8_t s[16])
{
  uint8_t t[16];
  for (int c = 0; c < 4; c++)
    for (int r = 0; r < 4; r++)
      t[r + 4 * c] = s[r + 4 * ((c + r) & 3)];
  memcpy(s, t, 16);
}
static void inv_shift_rows(uint8_t s[16])
{
  uint8_t t[16];
  for (int c = 0; c < 4; c++)
    for (int r = 0; r < 4; r++)
      t[r + 4 * ((c + r) & 3)] = s[r + 4 * c];
  memcpy(s, t, 16);
}
static void mix_columns(uint8_t s[16])
{
  for (int c = 0; c < 4; c++)
  {
    uint8_t *a = s + 4 * c;
    uint8_t b0 = M2[a[0]] ^ M3[a[1]] ^ a[2] ^ a[3];
    uint8_t b1 = a[0] ^ M2[a[1]] ^ M3[a[2]] ^ a[3];
    uint8_t b2 = a[0] ^ a[1] ^ M2[a[2]] ^ M3[a[3]];
    uint8_t b3 = M3[a[0]] ^ a[1] ^ a[2] ^ M2[a[3]];
    a[0] = b0;
    a[1] = b1;
    a[2] = b2;
    a[3] = b3;
  }
}
static void inv_mix_columns(uint8_t s[16])
{
  for (int c = 0; c < 4; c++)
  {
    uint8_t *a = s + 4 * c;
    uint8_t b0 = M14[a[0]] ^ M11[a[1]] ^ M13[a[2]] ^ M9[a[3]];
    uint8_t b1 = M9[a[0]] ^ M14[a[1]] ^ M11[a[2]] ^ M13[a[3]];
    uint8_t b2 = M13[a[0]] ^ M9[a[1]] ^ M14[a[2]] ^ M11[a[3]];
    uint8_t b3 = M11[a[0]] ^ M13[a[1]] ^ M9[a[2]] ^ M14[a[3]];
    a[0] = b0;
    a[1] = b1;
    a[2] = b2;
    a[3] = b3;
  }
}
void Aes128::enc(const uint8_t in[16], uint8_t out[16]) const
{
  uint8_t s[16];
  memcpy(s, in, 16);
  add_rk(s, rk[0]);
  for (int r = 1; r < 10; r++)
  {
    sub_bytes(s);
    shift_rows(s);
    mix_columns(s);
    add_rk(s, rk[r]);
  }
  sub_bytes(s);
  shift_rows(s);
  add_rk(s, rk[10]);
  memcpy(out, s, 16);
}
void Aes128::dec(const uint8_t in[16], uint8_t out[16]) const
{
  uint8_t s[16];
  memcpy(s, in, 16);
  add_rk(s, rk[10]);
  for (int r = 9; r >= 1; r--)
  {
    inv_shift_rows(s);
    inv_sub_bytes(s);
    add_rk(s, rk[r]);
    inv_mix_columns(s);
  }
  inv_shift_rows(s);
  inv_sub_bytes(s);
  add_rk(s, rk[0]);
  memcpy(out, s, 16);
}

// ---------------------------------------------------------------- SP 800-38A modes
ModeStream::ModeStream(const uint8_t key[16], const uint8_t iv[16], int m, bool e) : aes(key), mode(m), encrypt(e)
{
  memcpy(reg, iv, 16);
}
void ModeStream::block(const uint8_t in[16], uint8_t out[16])
{
  uint8_t t[16], x[16];
  switch (mode)
  {
  case ECB:
    if (encrypt)
      aes.enc(in, out);
    else
      aes.dec(in, out);
    break;
  case CBC:
    if (encrypt)
    {
      for (int i = 0; i < 16; i++)
        x[i] = in[i] ^ reg[i];
      aes.enc(x, t);
      memcpy(reg, t, 16);
      memcpy(out, t, 16);
    }
    else
    {
      memcpy(x, in, 16);
      aes.dec(x, t);
      for (int i = 0; i < 16; i++)
        t[i] ^= reg[i];
      memcpy(reg, x, 16);
      memcpy(out, t, 16);
    }
    break;
  case CTR:
  {
    aes.enc(reg, t);
    for (int i = 0; i < 16; i++)
      x[i] = in[i] ^ t[i];
    // standard incrementing function over the whole 128-bit block, big-endian
    for (int i = 15; i >= 0; i--)
      if (++reg[i] != 0)
        break;
    memcpy(out, x, 16);
    break;
  }
  case CFB:
  {
    aes.enc(reg, t);
    memcpy(x, in, 16);
    uint8_t o[16];
    for (int i = 0; i < 16; i++)
      o[i] = x[i] ^ t[i];
    memcpy(reg, encrypt ? o : x, 16); // feedback is always the ciphertext
    memcpy(out, o, 16);
    break;
  }
  case OFB:
  {
    aes.enc(reg, t);
    memcpy(reg, t, 16);
    for (int i = 0; i < 16; i++)
      x[i] = in[i] ^ t[i];
    memcpy(out, x, 16);
    break;
  }
  default:
    memcpy(out, in, 16);
  }
}
bytes ModeStream::run(const bytes &in)
{
  bytes out(in.size());
  for (size_t i = 0; i + 16 <= in.size(); i += 16)
    block(in.data() + i, out.data() + i);
  return out;
}
bytes mode_encrypt(int mode, const uint8_t key[16], const uint8_t iv[16], const bytes &in)
{
  ModeStream s(key, iv, mode, true);
  return s.run(in);
}
bytes mode_decrypt(int mode, const uint8_t key[16], const uint8_t iv[16], const bytes &in)
{
  ModeStream s(key, iv, mode, false);
  return s.run(in);
}

// ---------------------------------------------------------------- hashes
static inline uint32_t rol(uint32_t x, int s) { return (x << s) | (x >> (32 - s)); }
static inline uint32_t ror(uint32_t x, int s) { return (x >> s) | (x << (32 - s)); }
static inline uint32_t be32(const uint8_t *p) { return (uint32_t)p[0] << 24 | (uint32_t)p[1] << 16 | (uint32_t)p[2] << 8 | p[3]; }
static inline uint32_t le32(const uint8_t *p) { return (uint32_t)p[3] << 24 | (uint32_t)p[2] << 16 | (uint32_t)p[1] << 8 | p[0]; }

static void sha1_block(uint32_t h[8], const uint8_t *p)
{
  uint32_t w[80];
  for (int i = 0; i < 16; i++)
    w[i] = be32(p + 4 * i);
  for (int i = 16; i < 80; i++)
    w[i] = rol(w[i - 3] ^ w[i - 8] ^ w[i - 14] ^ w[i - 16], 1);
  uint32_t a = h[0], b = h[1], c = h[2], d = h[3], e = h[4];
  for (int i = 0; i < 80; i++)
  {
    uint32_t f, k;
    if (i < 20)
    {
      f = (b & c) | (~b & d);
      k = 0x5A827999;
    }
    else if (i < 40)
    {
      f = b ^ c ^ d;
      k = 0x6ED9EBA1;
    }
    else if (i < 60)
    {
      f = (b & c) | (b & d) | (c & d);
      k = 0x8F1BBCDC;
    }
    else
    {
      f = b ^ c ^ d;
      k = 0xCA62C1D6;
    }
    uint32_t t = rol(a, 5) + f + e + k + w[i];
    e = d;
    d = c;
    c = rol(b, 30);
    b = a;
    a = t;
  }
  h[0] += a;
  h[1] += b;
  h[2] += c;
  h[3] += d;
  h[4] += e;
}

static uint32_t K256[64];
static uint32_t TMD5[64];
static bool consts_ready = false;
// constants are *computed* (fractional parts of cube roots of primes / |sin|), not copied
static void init_consts()
{
  if (consts_ready)
    return;
  int primes[64], np = 0;
  for (int n = 2; np < 64; n++)
  {
    bool ok = true;
    for (int d = 2; d * d <= n; d++)
      if (n % d == 0)
        ok = false;
    if (ok)
      primes[np++] = n;
  }
  for (int i = 0; i < 64; i++)
  {
    // floor(frac(cbrt(p)) * 2^32) using integer arithmetic: find x = floor(cbrt(p * 2^96))
    // do it with long double Newton + exact integer correction on 128-bit
    unsigned __int128 target = (unsigned __int128)primes[i] << 96;
    // binary search x in [0, 2^36)
    unsigned long long lo = 0, hi = 1ull << 36;
    while (lo + 1 < hi)
    {
      unsigned long long mid = lo + (hi - lo) / 2;
      unsigned __int128 m = mid;
      unsigned __int128 cube = m * m; // < 2^72
      // cube * mid may overflow 128 bits? 2^72 * 2^36 = 2^108 fine
      cube = cube * m;
      if (cube <= target)
        lo = mid;
      else
        hi = mid;
    }
    K256[i] = (uint32_t)(lo & 0xffffffffull);
  }
  // MD5 T[i] = floor(2^32 * |sin(i+1)|): long double has 64-bit mantissa, ample for 32 bits
  for (int i = 0; i < 64; i++)
  {
    long double s = __builtin_sinl((long double)(i + 1));
    if (s < 0)
      s = -s;
    TMD5[i] = (uint32_t)(unsigned long long)(s * 4294967296.0L);
  }
  consts_ready = true;
}
static uint32_t sqrt_frac32(int p)
{
  // floor(frac(sqrt(p)) * 2^32) = floor(sqrt(p * 2^64)) mod 2^32
  unsigned __int128 target = (unsigned __int128)p << 64;
  unsigned long long lo = 0, hi = 1ull << 36;
  while (lo + 1 < hi)
  {
    unsigned long long mid = lo + (hi - lo) / 2;
    unsigned __int128 sq = (unsigned __int128)mid * mid;
    if (sq <= target)
      lo = mid;
    else
      hi = mid;
  }
  return (uint32_t)(lo & 0xffffffffull);
}

static void sha256_block(uint32_t h[8], const uint8_t *p)
{
  init_consts();
  uint32_t w[64];
  for (int i = 0; i < 16; i++)
    w[i] = be32(p + 4 * i);
  for (int i = 16; i < 64; i++)
  {
    uint32_t s0 = ror(w[i - 15], 7) ^ ror(w[i - 15], 18) ^ (w[i - 15] >> 3);
    uint32_t s1 = ror(w[i - 2], 17) ^ ror(w[i - 2], 19) ^ (w[i - 2] >> 10);
    w[i] = w[i - 16] + s0 + w[i - 7] + s1;
  }
  uint32_t a = h[0], b = h[1], c = h[2], d = h[3], e = h[4], f = h[5], g = h[6], hh = h[7];
  for (int i = 0; i < 64; i++)
  {
    uint32_t S1 = ror(e, 6) ^ ror(e, 11) ^ ror(e, 25);
    uint32_t ch = (e & f) ^ (~e & g);
    uint32_t t1 = hh + S1 + ch + K256[i] + w[i];
    uint32_t S0 = ror(a, 2) ^ ror(a, 13) ^ ror(a, 22);
    uint32_t mj = (a & b) ^ (a & c) ^ (b & c);
    uint32_t t2 = S0 + mj;
    hh = g;
    g = f;
    f = e;
    e = d + t1;
    d = c;
    c = b;
    b = a;
    a = t1 + t2;
  }
  h[0] += a;
  h[1] += b;
  h[2] += c;
  h[3] += d;
  h[4] += e;
  h[5] += f;
  h[6] += g;
  h[7] += hh;
}

static void md5_block(uint32_t h[8], const uint8_t *p)
{
  init_consts();
  static const int S[4][4] = {{7, 12, 17, 22}, {5, 9, 14, 20}, {4, 11, 16, 23}, {6, 10, 15, 21}};
  uint32_t x[16];
  for (int i = 0; i < 16; i++)
    x[i] = le32(p + 4 * i);
  uint32_t a = h[0], b = h[1], c = h[2], d = h[3];
  for (int i = 0; i < 64; i++)
  {
    uint32_t f;
    int g;
    int r = i / 16;
    if (r == 0)
    {
      f = (b & c) | (~b & d);
      g = i;
    }
    else if (r == 1)
    {
      f = (d & b) | (~d & c);
      g = (5 * i + 1) & 15;
    }
    else if (r == 2)
    {
      f = b ^ c ^ d;
      g = (3 * i + 5) & 15;
    }
    else
    {
      f = c ^ (b | ~d);
      g = (7 * i) & 15;
    }
    uint32_t t = a + f + TMD5[i] + x[g];
    a = d;
    d = c;
    c = b;
    b = b + rol(t, S[r][i & 3]);
  }
  h[0] += a;
  h[1] += b;
  h[2] += c;
  h[3] += d;
}

Hash::Hash(int a) : alg(a), len(0)
{
  memset(h, 0, sizeof h);
  memset(buf, 0, sizeof buf);
  if (alg == 0)
  {
    h[0] = 0x67452301;
    h[1] = 0xEFCDAB89;
    h[2] = 0x98BADCFE;
    h[3] = 0x10325476;
    h[4] = 0xC3D2E1F0;
  }
  else if (alg == 1)
  {
    h[0] = 0x67452301;
    h[1] = 0xEFCDAB89;
    h[2] = 0x98BADCFE;
    h[3] = 0x10325476;
  }
  else
  {
    static const int p8[8] = {2, 3, 5, 7, 11, 13, 17, 19};
    for (int i = 0; i < 8; i++)
      h[i] = sqrt_frac32(p8[i]);
  }
}
static void do_block(int alg, uint32_t h[8], const uint8_t *p)
{
  if (alg == 0)
    sha1_block(h, p);
  else if (alg == 1)
    md5_block(h, p);
  else
    sha256_block(h, p);
}
void Hash::update(const uint8_t *p, size_t n)
{
  size_t fill = (size_t)(len & 63);
  len += n;
  if (fill)
  {
    size_t take = 64 - fill < n ? 64 - fill : n;
    memcpy(buf + fill, p, take);
    p += take;
    n -= take;
    if (fill + take < 64)
      return;
    do_block(alg, h, buf);
  }
  while (n >= 64)
  {
    do_block(alg, h, p);
    p += 64;
    n -= 64;
  }
  if (n)
    memcpy(buf, p, n);
}
bytes Hash::final()
{
  uint64_t bits = len * 8;
  uint8_t pad[72];
  size_t fill = (size_t)(len & 63);
  size_t padlen = (fill < 56) ? 56 - fill : 120 - fill;
  memset(pad, 0, sizeof pad);
  pad[0] = 0x80;
  uint8_t lenb[8];
  for (int i = 0; i < 8; i++)
    lenb[i] = (alg == 1) ? (uint8_t)(bits >> (8 * i)) : (uint8_t)(bits >> (8 * (7 - i)));
  update(pad, padlen);
  update(lenb, 8);
  int words = alg == 0 ? 5 : alg == 1 ? 4 : 8;
  bytes out(words * 4);
  for (int i = 0; i < words; i++)
    for (int j = 0; j < 4; j++)
      out[4 * i + j] = (alg == 1) ? (uint8_t)(h[i] >> (8 * j)) : (uint8_t)(h[i] >> (8 * (3 - j)));
  return out;
}
bytes hash(int alg, const uint8_t *p, size_t n)
{
  Hash x(alg);
  x.update(p, n);
  return x.final();
}
bytes hmac(int alg, const bytes &key, const uint8_t *msg, size_t n)
{
  bytes k = key;
  if (k.size() > 64)
    k = hash(alg, k);
  k.resize(64, 0);
  bytes ip(64), op(64);
  for (int i = 0; i < 64; i++)
  {
    ip[i] = k[i] ^ 0x36;
    op[i] = k[i] ^ 0x5c;
  }
  Hash in(alg);
  in.update(ip.data(), 64);
  in.update(msg, n);
  bytes ih = in.final();
  Hash out(alg);
  out.update(op.data(), 64);
  out.update(ih.data(), ih.size());
  return out.final();
}

// ---------------------------------------------------------------- base64
static const char *B64 = "ABCDEFGHIJKLMNOPQRSTUVWXYZabcdefghijklmnopqrstuvwxyz0123456789+/";
std::string b64_encode(const uint8_t *p, size_t n)
{
  std::string s;
  size_t i = 0;
  for (; i + 3 <= n; i += 3)
  {
    uint32_t v = (uint32_t)p[i] << 16 | (uint32_t)p[i + 1] << 8 | p[i + 2];
    s += B64[v >> 18];
    s += B64[(v >> 12) & 63];
    s += B64[(v >> 6) & 63];
    s += B64[v & 63];
  }
  if (n - i == 1)
  {
    uint32_t v = (uint32_t)p[i] << 16;
    s += B64[v >> 18];
    s += B64[(v >> 12) & 63];
    s += "==";
  }
  else if (n - i == 2)
  {
    uint32_t v = (uint32_t)p[i] << 16 | (uint32_t)p[i + 1] << 8;
    s += B64[v >> 18];
    s += B64[(v >> 12) & 63];
    s += B64[(v >> 6) & 63];
    s += '=';
  }
  return s;
}
static int b64_val(unsigned char c)
{
  if (c >= 'A' && c <= 'Z')
    return c - 'A';
  if (c >= 'a' && c <= 'z')
    return c - 'a' + 26;
  if (c >= '0' && c <= '9')
    return c - '0' + 52;
  if (c == '+')
    return 62;
  if (c == '/')
    return 63;
  return -1;
}
static bool b64_decode(const std::string &s, bytes &out, bool strict_bits)
{
  out.clear();
  if (s.size() % 4 != 0)
    return false;
  for (size_t i = 0; i < s.size(); i += 4)
  {
    int v[4], pad = 0;
    for (int j = 0; j < 4; j++)
    {
      unsigned char c = (unsigned char)s[i + j];
      if (c == '=')
      {
        if (i + 4 != s.size() || j < 2)
          return false;
        pad++;
        v[j] = 0;
      }
      else
      {
        if (pad)
          return false;
        v[j] = b64_val(c);
        if (v[j] < 0)
          return false;
      }
    }
    uint32_t x = (uint32_t)v[0] << 18 | (uint32_t)v[1] << 12 | (uint32_t)v[2] << 6 | (uint32_t)v[3];
    out.push_back((uint8_t)(x >> 16));
    if (pad < 2)
      out.push_back((uint8_t)(x >> 8));
    if (pad < 1)
      out.push_back((uint8_t)x);
    if (strict_bits)
    {
      if (pad == 2 && (v[1] & 15))
        return false;
      if (pad == 1 && (v[2] & 3))
        return false;
    }
  }
  return true;
}
bool b64_decode_strict(const std::string &s, bytes &out) { return b64_decode(s, out, true); }
bool b64_decode_lenient_bits(const std::string &s, bytes &out) { return b64_decode(s, out, false); }

// ---------------------------------------------------------------- file format
bytes iv_chain(const bytes &seed, int T)
{
  bytes out;
  bytes cur = hash(0, seed);
  out.insert(out.end(), cur.begin(), cur.end());
  for (int i = 1; i < T; i++)
  {
    cur = hash(0, cur);
    out.insert(out.end(), cur.begin(), cur.end());
  }
  return out;
}
bytes pkcs7_pad(const bytes &p)
{
  bytes r = p;
  uint8_t n = (uint8_t)(16 - (p.size() % 16));
  r.insert(r.end(), n, n);
  return r;
}
static const uint8_t MAGIC[8] = {0xC3, 0xA5, 0xC3, 0xA5, 0xC3, 0xA5, 0xC3, 0xA5};
bytes encrypt_file(const bytes &plain, const FileParams &fp)
{
  bytes f(MAGIC, MAGIC + 8);
  f.push_back((uint8_t)fp.cmode);
  f.push_back((uint8_t)fp.hmode);
  f.resize(48, 0);
  bytes ivs = iv_chain(fp.seed, fp.T);
  f.insert(f.end(), ivs.begin(), ivs.end());
  bytes pp = pkcs7_pad(plain);
  std::vector<ModeStream> streams;
  for (int i = 0; i < fp.T; i++)
    streams.emplace_back(fp.key.data(), ivs.data(), fp.cmode, true); // every stream starts from the first 16 bytes of the first IV
  bytes body(pp.size());
  size_t nchunks = (pp.size() + fp.chunk - 1) / fp.chunk;
  for (size_t j = 0; j < nchunks; j++)
  {
    size_t off = j * fp.chunk, end = std::min(pp.size(), off + fp.chunk);
    ModeStream &s = streams[j % fp.T];
    for (size_t o = off; o < end; o += 16)
      s.block(pp.data() + o, body.data() + o);
  }
  f.insert(f.end(), body.begin(), body.end());
  bytes tag = hmac(fp.hmode, fp.key, f.data() + 48, f.size() - 48);
  memcpy(f.data() + 10, tag.data(), tag.size());
  return f;
}
Parsed parse_file(const bytes &file, const bytes &key, int T, size_t chunk)
{
  Parsed r;
  r.status = 0;
  r.cmode = r.hmode = -1;
  r.tag_ok = false;
  if (file.size() < 8 || memcmp(file.data(), MAGIC, 8) != 0)
  {
    r.status = 4;
    return r;
  }
  if (file.size() < 10)
  {
    r.status = 1;
    return r;
  }
  r.cmode = file[8];
  r.hmode = file[9];
  if (r.cmode > 4 || r.hmode > 2)
  {
    r.status = 3;
    return r;
  }
  size_t hl = Hash::hlen(r.hmode);
  if (file.size() < 10 + 64) // wencry reads 64 bytes at offset 10 for the stored tag
  {
    r.status = 1;
    return r;
  }
  bytes tag = hmac(r.hmode, key, file.data() + 48, file.size() - 48);
  r.tag_ok = memcmp(tag.data(), file.data() + 10, hl) == 0;
  if (!r.tag_ok)
  {
    r.status = 2;
    return r;
  }
  size_t body_off = 48 + 20 * (size_t)T;
  if (file.size() < body_off + 16 || (file.size() - body_off) % 16 != 0)
  {
    r.status = 5;
    return r;
  }
  bytes body(file.begin() + body_off, file.end());
  std::vector<ModeStream> streams;
  for (int i = 0; i < T; i++)
    streams.emplace_back(key.data(), file.data() + 48, r.cmode, false);
  bytes pp(body.size());
  size_t nchunks = (body.size() + chunk - 1) / chunk;
  for (size_t j = 0; j < nchunks; j++)
  {
    size_t off = j * chunk, end = std::min(body.size(), off + chunk);
    ModeStream &s = streams[j % T];
    for (size_t o = off; o < end; o += 16)
      s.block(body.data() + o, pp.data() + o);
  }
  uint8_t pad = pp.back();
  if (pad < 1 || pad > 16)
  {
    r.status = 5;
    return r;
  }
  for (size_t i = pp.size() - pad; i < pp.size(); i++)
    if (pp[i] != pad)
    {
      r.status = 5;
      return r;
    }
  pp.resize(pp.size() - pad);
  r.plain = pp;
  return r;
}
std::string first_diff_field(const bytes &a, const bytes &b, int T, size_t chunk, int hlen)
{
  size_t n = std::min(a.size(), b.size());
  size_t i = 0;
  while (i < n && a[i] == b[i])
    i++;
  if (i == n)
  {
    if (a.size() == b.size())
      return "identical";
    return "length (" + std::to_string(a.size()) + " vs " + std::to_string(b.size()) + ")";
  }
  std::string at = " at offset " + std::to_string(i);
  if (i < 8)
    return "magic" + at;
  if (i == 8)
    return "cipher-mode byte" + at;
  if (i == 9)
    return "hash-mode byte" + at;
  if (i < 10 + (size_t)hlen)
    return "tag" + at;
  if (i < 48)
    return "tag padding" + at;
  size_t body = 48 + 20 * (size_t)T;
  if (i < body)
    return "IV slot " + std::to_string((i - 48) / 20) + at;
  size_t j = (i - body) / chunk;
  return "body chunk " + std::to_string(j) + " (stream " + std::to_string(j % T) + ", block " + std::to_string(((i - body) % chunk) / 16) + ")" + at;
}
} // namespace ref
