// Allocation-fault injection (C06 / C05 / C11 error paths): the harness replaces the global operator new so
// that, while armed, the n-th allocation made by the code under test fails once with std::bad_alloc (the
// nothrow forms of libstdc++ are built on the throwing form, so `new (std::nothrow)` returns NULL there).
// Allocations of the harness itself (memory files, event log, scheduler bookkeeping) are exempt.
#pragma once
namespace allocfault
{
extern thread_local int exempt; // > 0: the allocation belongs to the harness (per OS thread: increments never span a schedule point)
struct Exempt
{
  Exempt() { exempt++; }
  ~Exempt() { exempt--; }
};
void arm(long nth); // nth >= 0: the nth eligible allocation from now on fails (once); nth < 0: only count
void arm_size(unsigned long lo, unsigned long hi); // the first eligible allocation of lo <= bytes <= hi fails (the big buffers refused by a machine short of memory)
void disarm();
bool fired();
unsigned long seen(); // eligible allocations seen since arm()
bool available();     // false in builds that keep the sanitizer's own operator new (ThreadSanitizer)
} // namespace allocfault
