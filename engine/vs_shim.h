// Force-included (-include) in front of every wencry TU of the "sched" builds: includes every
// standard header first, then renames the three tokens so that wencry's own
// std::mutex / std::condition_variable / std::thread become the deterministic ones.
// No source edit in /repo is needed for this.
#pragma once
#include <mutex>
#include <condition_variable>
#include <thread>
#include <functional>
#include <string>
#include <iostream>
#include <iomanip>
#include <chrono>
#include <map>
#include <vector>
#include <filesystem>
#include <cmath>
#include <math.h>
#include <stdio.h>
#include <string.h>
#include <stdlib.h>
#include <time.h>
#include <ctype.h>
#include <sys/stat.h>
#include <unistd.h>
#include <getopt.h>
#include "vsched.h"
namespace std
{
using vs_mutex = ::vsched::mutex;
using vs_condition_variable = ::vsched::condition_variable;
using vs_thread = ::vsched::thread;
}
#define VS_SHIM 1
#define mutex vs_mutex
#define condition_variable vs_condition_variable
#define thread vs_thread
