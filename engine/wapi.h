// The only interface between the property harnesses and wencry. wapi.cpp is the one TU that
// includes /repo headers; harness TUs see plain structs and functions, so they need no rebuild when
// /repo changes.
#pragma once
#include "common.h"

namespace wapi
{
struct WriteRec
{
  uint64_t off;
  bytes data;
};

// ---- schedule specification (a generated, shrinkable, replayable value) ----
struct SchedSpec
{
  // 0 canonical (continue current thread, else lowest id)
  // 1 walk: decision k picks alternatives[walk[k] % n]; canonical afterwards
  // 2 pct: run the highest-priority runnable thread; at decision ordinals in `change` the running
  //        thread drops to the lowest priority
  // 3 prefix: decision k picks alternative index prefix[k] (systematic enumeration / exact replay)
  int kind = 0;
  bytes walk;
  std::vector<int> prio;          // priority of thread id i (larger runs first); missing ids get -id
  std::vector<uint32_t> change;   // pct change points (decision ordinals)
  std::vector<uint8_t> prefix;    // alternative indices
  std::vector<uint32_t> spurious; // cv-wait ordinals at which the wait returns spuriously
  uint64_t max_steps = 0;         // 0 = derive from the input size
  bool record = false;            // record the decision trace
  std::string text() const;
  static SchedSpec parse(const std::string &s);
};

struct Decision
{
  uint8_t n, chosen, cur_runnable, tid;
};
struct SchedOut
{
  uint64_t steps = 0, switches = 0, preemptions = 0, cvwaits = 0, spurious = 0, decisions = 0;
  int nthreads = 0;
  std::vector<Decision> trace;
};

struct Event
{
  int kind;
  int tid; // virtual thread id (0 = I/O thread)
  uint64_t obj;
  long a, b;
};

struct OpOut
{
  bool ret = false;
  bytes out;               // bytes of the output memory file after the operation
  uint32_t out_writes = 0; // write callbacks that reached the output stream
  uint64_t out_written_bytes = 0;
  uint32_t in_writes = 0;  // write callbacks that reached the input stream (must stay 0)
  bool in_same = true;     // input bytes unchanged
  bool in_closed = false, out_closed = false;
  std::vector<WriteRec> log; // every write that reached the output stream, in order
  SchedOut sched;
  std::vector<Event> events;
  int live_after = -1; // bufferctrl::haslive() after the run (0 expected)
  bool threw = false;       // the operation left by std::bad_alloc (injected allocation failure)
  bool fault_fired = false; // the injected allocation failure was reached
  uint32_t allocs_seen = 0; // allocations of the code under test during the operation
  bytes ser() const;
  static OpOut de(const bytes &b);
};

struct PipeCfg
{
  int T = 4;
  int chunk = 0; // bytes; 0 = leave the build's default
  int refill = 0; // hash file-buffer refill size in 64-byte units; 0 = leave the build's default
  SchedSpec sched;
  int outbuf = 0; // stdio buffering of the output stream: 0 default, 1 unbuffered, 2 64-byte buffer
  int inbuf = 0;  // stdio buffering of the input stream: 0 default, 1 unbuffered
  bool want_events = false;
  bool want_log = false;
  long in_fail_at = -1; // >= 0: reads of the input stream at or beyond this offset fail with EIO
  bool in_fail_once = false; // ... only the first of them (transient error; stdio's error flag stays set)
  bool in_noseek = false; // the input is a pipe: every seek on it fails with ESPIPE
  long fsize_hint = -1;   // >= 0: the size the caller passes to execute_* (a pipe's size is unknown: the CLI passes 0); -1: the real size
  int hint_c = -1, hint_h = -1; // cipher / hash mode in the Settings of a decrypt / verify (-1: not given, as the CLI does without --cmode / --hmode)
  unsigned char *key_buf = nullptr;  // the caller's own 16-byte key buffer is handed to runcrypt (not a private copy)
  unsigned char *seed_buf = nullptr; // the caller's own NUL-terminated seed buffer is handed to execute_encrypt (not a private copy): a
                                     // caller that keeps one seed buffer for several encryptions
  bool null_input = false; // the operation is given a NULL input stream (a file that could not be opened)
  long out_fail_at = -1; // >= 0: the output stream takes this many bytes in all, then writes fail (device full)
  int fail_big = 0;   // 1: the chunk-buffer array cannot be allocated, 2: the hash file buffer cannot be allocated (std::bad_alloc), for the whole operation
  long fail_new = -2; // >= 0: the n-th allocation of the code under test fails once (std::bad_alloc); -1: count only; -2: off
};

bool has_scheduler(); // true in the sched builds
int chunk_capacity(); // largest chunk (bytes) this build supports

OpOut encrypt(const bytes &plain, const bytes &key, const bytes &seed, int cmode, int hmode, const PipeCfg &pc);
OpOut decrypt(const bytes &file, const bytes &key, const PipeCfg &pc);
OpOut verify(const bytes &file, const bytes &key, const PipeCfg &pc, bool with_out);
// Several verifications of `file` at the same time, one real thread per key (each with its own stream and runcrypt object),
// `reps` rounds each, no scheduler involved; returns how many of each key's verifications reported success
std::vector<int> verify_concurrent(const bytes &file, const std::vector<bytes> &keys, int T, int chunk, int refill_units, int reps);

// pipeline alone with recorder streams (C03 / C14 level 2)
struct RecCall
{
  int tid, stream;
  uint32_t ordinal;
  uint64_t addr;
};
struct RecOut
{
  OpOut op;
  std::vector<RecCall> calls;
  uint64_t buf_base = 0, buf_stride = 0, buf_count = 0;
  bytes ser() const;
  static RecOut de(const bytes &b);
};
// transform applied by recorder stream s to its ordinal-th block
void rec_transform(int stream, uint32_t ordinal, const uint8_t in[16], uint8_t out[16]);
RecOut run_recorder(const bytes &input, bool ispadding, const PipeCfg &pc);

// ---- pure functions ----
bytes hash_string(int alg, const bytes &m, int addr_off = 0); // addr_off 0..7: the message starts that many bytes behind an 8-aligned address
// the same hasher object first digests `decoy`, then `m` (the object must reset itself between messages)
// the digest is written into the message buffer itself, at offset out_off (b = H(b) chains, digest over the tail ...)
bytes hash_string_inplace(int alg, const bytes &m, size_t out_off);
bytes hash_string_reuse(int alg, const bytes &decoy, const bytes &m);
// through filebuffer64 on a memory file positioned at `pos`, optionally with a 64-byte prefix block
// decoy: a second filebuffer64 over these bytes is alive while `file` is hashed
// how: 0 = a seekable stream positioned at `pos` with fseek; 1 = a pipe: the bytes from `pos` on arrive through a stream that
// cannot seek or tell; 2 = the caller has read the stream to its end before (end-of-file indicator set, no seek since):
// what is left to hash is the empty message; 3 = a pipe carrying the whole file of which the caller has read the first `pos` bytes
// through stdio (stdio holds read-ahead of what follows)
bytes hash_filebuf(int alg, const bytes &file, size_t pos, int refill_units, const bytes *prefix64, const bytes *decoy = nullptr, int how = 0);
// synthetic stream of `len` bytes (byte i = pattern(i)) through a buffer64 subclass, no file involved
bytes hash_synth(int alg, uint64_t len, uint32_t pat);
// the same synthetic message materialised in memory and given to the in-memory entry point (len < 2^32)
bytes hash_string_synth(int alg, uint64_t len, uint32_t pat);
inline uint8_t synth_byte(uint64_t i, uint32_t pat) { return (uint8_t)((i * 2654435761ull + pat) >> 7 ^ (i >> 20)); }
int hash_len(int alg);
int refill_capacity();

bytes hmac_get(int hmode, const bytes &key, const bytes &file, size_t pos, int refill_units, int how = 0); // how: as hash_filebuf
bool hmac_cmp(int hmode, const bytes &key, const bytes &file, size_t pos, const bytes &tag64, int refill_units, int how = 0);
// HMAC over a synthetic stream of `len` bytes (byte i = synth_byte(i, pat)) from position `pos` to the end, nothing
// materialised; when cmp_tag is given, cmphmac is run on it as well
bytes hmac_synth(int hmode, const bytes &key, uint64_t len, uint32_t pat, uint64_t pos, const bytes *cmp_tag, bool *cmp_result);
bytes hmac_write(int hmode, const bytes &key, const bytes &file, size_t hash_mark, size_t write_mark, int refill_units);
// ONE hmac object used for several consecutive calls (hmode, key, file, pos per call); for kind 0 the tag is
// returned, for kind 1 the result of cmphmac against `tag64` (1 byte: 0/1)
struct HmacCall
{
  int kind, hmode;
  bytes key, file, tag64;
  size_t pos;
  bool same_stream = false; // the call gets the stream of the previous call as it was left (at its end, end-of-file indicator set, no seek):
                            // the message it covers is empty
};
std::vector<bytes> hmac_seq(const std::vector<HmacCall> &calls, int refill_units); // returns file after writeFileHmac

// off = address residue (mod 16) of the block handed to the library; canary_report() returns a message (once)
// if a call wrote outside its 16 bytes
void aes_encrypt_block(const uint8_t key[16], uint8_t block[16], int off = 0);
void aes_decrypt_block(const uint8_t key[16], uint8_t block[16], int off = 0);
const char *canary_report();
// handle lifetimes: a script over `nslots` handle slots. op 0: (re)construct slot a with `key` in place (the storage of
// a live handle is reused, as in a pool); 1: slot a = copy-constructed from slot b (on the heap); 2: slot a = slot b
// (assignment); 3: destroy slot a; 4: run slot a on `block` (result appended to the returned list).
// Copies / assignments are skipped (returns false through *copyable) when the class does not allow them.
struct AesHOp
{
  int op, a, b;
  bytes key, block;
};
std::vector<bytes> aes_handles(bool enc, int nslots, const std::vector<AesHOp> &ops, bool *copyable);
const uint8_t *tab_sbox();
const uint8_t *tab_rsbox();
const uint8_t *tab_log();
const uint8_t *tab_alog(); // 512 entries
const uint8_t *tab_rc();   // 11 entries
uint8_t gmul(int u, uint8_t v); // the library's Gmul macro

void *mode_new(bool enc, int type, const uint8_t key[16], const uint8_t iv[16]); // NULL for unknown type
void mode_run(void *h, uint8_t block[16], int off = 0);
void mode_free(void *h);
void mode_run_raw(void *h, uint8_t *block); // in place, no canary copy (used from several threads at once)
void *factory_new(const uint8_t key[16], const uint8_t iv[16]);
void *factory_make(void *f, bool enc, int type);
void factory_free(void *f);
void factory_loadiv(void *f, const uint8_t iv[16]); // the factory is given another IV (same buffer, new content, loadiv() called)
// a COPY of the factory object (copy construction, if the class allows it - else NULL) that is then given another IV with
// loadiv(); the source factory is given yet another IV afterwards. Objects made from the copy must use the copy's IV.
void *factory_copy(void *f, const uint8_t iv_for_copy[16], const uint8_t iv_for_source_afterwards[16]);

// base64: out buffers are allocated with exactly `out_cap` bytes on the heap (ASan guards the rest)
std::string b64_encode(const bytes &in, size_t out_cap, bool &terminated, size_t &written_upto);
bytes b64_decode(const std::string &in, int len, size_t out_cap);
bool b64_valid_key(const std::string &s);
// the real CLI key path: get_v_opt({"w","-V","-k",s}); returns false if rejected
bool cli_key_path(const std::string &s, bytes &key_out);

// ---- CLI in-process (main() renamed) ----
int cli_main(const std::vector<std::string> &argv);
// the body of main() under the scheduler of this build (T = 4 inside); returns main's return value
int cli_run(const std::vector<std::string> &argv, const PipeCfg &pc, size_t nblocks, SchedOut *so);
void set_sizes(int chunk, int refill_units); // explicit values for the two hooked constants
void set_fake_time(long t);                  // time() seen by wencry (0 = the real clock)

void quiet_stdout(); // silence wencry's progress output
} // namespace wapi
