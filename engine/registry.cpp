// Property registry and helpers shared by the harness entry point and the fuzz targets.
#include "harness.h"
#include "gen.h"
#include <unistd.h>
#include <fcntl.h>
#include <time.h>
#include <sys/mman.h>
#include <sys/wait.h>

Ctx g_ctx;
static double now_s()
{
  struct timespec t;
  clock_gettime(CLOCK_MONOTONIC, &t);
  return t.tv_sec + t.tv_nsec / 1e9;
}
bool Ctx::over_budget() const { return budget_s > 0 && now_s() - t_start > budget_s; }
// shared with the supervising parent: the case being executed (so that a crash of the whole shard,
// e.g. a sanitizer abort in a property that does not fork per case, still yields a replay file)
Shared *g_sh = nullptr;
void set_current(const Case &c)
{
  if (!g_sh)
    return;
  std::string t = c.text();
  uint32_t n = (uint32_t)std::min(t.size(), sizeof(g_sh->text) - 1);
  memcpy(g_sh->text, t.data(), n);
  g_sh->len = n;
  g_sh->evals++;
}
static std::vector<Prop> &props()
{
  static std::vector<Prop> v;
  return v;
}
void register_prop(const Prop &p) { props().push_back(p); }
const Prop *find_prop(const std::string &id)
{
  for (auto &p : props())
    if (p.id == id)
      return &p;
  return nullptr;
}
static std::set<std::string> g_listed;
bool finding_listed(const std::string &prop, const std::string &key) { return g_listed.count(prop + "/" + key) > 0; }
void load_known(const std::string &path)
{
  std::string t = read_file(path);
  size_t i = 0;
  while (i < t.size())
  {
    size_t e = t.find('\n', i);
    if (e == std::string::npos)
      e = t.size();
    std::string line = t.substr(i, e - i);
    i = e + 1;
    if (line.rfind("finding:", 0) != 0)
      continue;
    size_t p = line.find("property="), k = line.find("key=");
    if (p == std::string::npos || k == std::string::npos)
      continue;
    std::string prop = line.substr(p + 9, line.find(' ', p) - p - 9);
    std::string key = line.substr(k + 4, line.find(' ', k) - k - 4);
    g_listed.insert(prop + "/" + key);
  }
}

bytes expand(uint64_t seed, size_t n, int style)
{
  bytes b(n);
  Sm64 r(seed);
  switch (style)
  {
  case 1: // constant fill
  {
    uint8_t c = (uint8_t)r.next();
    for (auto &x : b)
      x = c;
    break;
  }
  case 2: // counter
  {
    uint8_t c = (uint8_t)r.next();
    for (size_t i = 0; i < n; i++)
      b[i] = (uint8_t)(c + i);
    break;
  }
  case 3: // every 16-byte block identical
  {
    uint8_t blk[16];
    for (auto &x : blk)
      x = (uint8_t)r.next();
    for (size_t i = 0; i < n; i++)
      b[i] = blk[i & 15];
    break;
  }
  case 4: // bytes that matter to C-string handling, sign extension and padding confusion
  {
    static const uint8_t pool[] = {0x00, 0x00, 0xff, 0x80, 0x01, 0x02, 0x04, 0x08, 0x0f, 0x10, 0x11, 0x7f, 0xc3, 0xa5, 0x3d, 0x41};
    for (size_t i = 0; i < n; i++)
      b[i] = pool[r.next() % sizeof pool];
    break;
  }
  default:
    for (size_t i = 0; i < n; i += 8)
    {
      uint64_t v = r.next();
      for (size_t j = 0; j < 8 && i + j < n; j++)
        b[i + j] = (uint8_t)(v >> (8 * j));
    }
  }
  return b;
}

std::string describe_child(const ChildResult &r) { return r.describe(); }

static int g_replay_seq = 0;
std::string write_replay(const Ctx &ctx, const Case &c, const Verdict &v, const char *kind)
{
  std::string path = ctx.outdir + "/" + ctx.prop + ".shard" + std::to_string(ctx.shard) + "." + kind + ".replay";
  std::string t = "# property=" + ctx.prop + "\n# " + v.msg.substr(0, 400) + "\n";
  for (auto &ch : t)
    if (ch == '\r')
      ch = ' ';
  // keep the comment on one line
  std::string m = v.msg.substr(0, 400);
  for (auto &ch : m)
    if (ch == '\n' || ch == '\r')
      ch = ' ';
  t = "# property=" + ctx.prop + "\n# " + m + "\n" + (v.replay_text.empty() ? c.text() : v.replay_text);
  write_file(path, t);
  (void)g_replay_seq;
  return path;
}

Verdict eval_fixed(const Prop &p, Ctx &ctx, const Case &c)
{
  if (ctx.over_budget() || ctx.stats.violations)
  {
    // budget used up (or a violation already reported): the remaining enumeration is skipped, and says so
    if (!ctx.stats.violations)
      ctx.stats.info["budget_exhausted"] = "fixed enumeration cut short by the wall-clock budget";
    return Verdict();
  }
  set_current(c);
  Verdict v = p.run(c);
  ctx.stats.note(c, v);
  if (v.infra)
  {
    fprintf(stderr, "INFRA %s: %s\n", p.id.c_str(), v.msg.c_str());
    ctx.stats.info["infra_error"] = v.msg;
  }
  else if (!v.ok && v.known.empty())
  {
    ctx.stats.violations++;
    if (ctx.stats.first_violation_msg.empty())
    {
      ctx.stats.first_violation_msg = v.msg;
      std::string path = write_replay(ctx, c, v, "fixed");
      printf("FAIL replay=%s msg=%s\n", path.c_str(), v.msg.substr(0, 300).c_str());
      fflush(stdout);
    }
  }
  return v;
}


std::vector<std::string> list_props()
{
  std::vector<std::string> r;
  for (auto &p : props())
    r.push_back(p.id);
  return r;
}
