// OS-thread backend of the deterministic scheduler (used by the sanitizer builds; see vsched_uctx.cpp)
#ifndef VS_UCONTEXT
#include "vsched.h"
#include "allocfault.h"
#include <unistd.h>
#include <string.h>
namespace vsched
{
struct VT
{
  int id;
  St st = RUNNABLE;
  const void *on = nullptr;
  int join_target = -1;
  bool timed = false, timed_out = false; // blocked in a timed cv wait / woken by its (virtual) timeout
  real_cv wake;
  real_thread th;
};

struct G
{
  real_mutex m;
  std::vector<std::unique_ptr<VT>> ts;
  int cur = -1;
  bool active = false;
  Chooser *ch = nullptr;
  uint64_t max_steps = 0;
  bool rec = false;
  Outcome out;
};
static G g;
static thread_local int tl_self = -1;

static void default_fatal(const char *what)
{
  fprintf(stderr, "VSCHED-FATAL %s steps=%llu %s\n", what, (unsigned long long)g.out.steps, g.out.blocked_desc.c_str());
  _exit(what[0] == 'd' ? 42 : 43);
}
void (*on_fatal)(const char *what) = default_fatal;

int self() { return tl_self; }
bool active() { return g.active; }
Outcome &current() { return g.out; }

static const char *stname(St s)
{
  switch (s)
  {
  case RUNNABLE:
    return "runnable";
  case BLK_MUTEX:
    return "mutex";
  case BLK_CV:
    return "cv";
  case BLK_JOIN:
    return "join";
  default:
    return "done";
  }
}

// caller holds g.m. choose the next thread and hand the baton over; returns when we own it again
static void handover(std::unique_lock<real_mutex> &lk, int kind)
{
  int ids[64], n = 0;
  bool cur_runnable = false;
  VT *me = g.ts[tl_self].get();
  if (me->st == RUNNABLE)
  {
    ids[n++] = tl_self;
    cur_runnable = true;
  }
  for (auto &t : g.ts)
    if ((t->st == RUNNABLE || (t->st == BLK_CV && t->timed)) && t->id != tl_self)
      ids[n++] = t->id;
  if (n == 0)
  {
    bool all_done = true;
    for (auto &t : g.ts)
      if (t->st != DONE)
        all_done = false;
    if (all_done)
      return;
    g.out.deadlock = true;
    std::string d;
    for (auto &t : g.ts)
    {
      char b[96];
      snprintf(b, sizeof b, "t%d:%s ", t->id, stname(t->st));
      d += b;
    }
    g.out.blocked_desc = d;
    on_fatal("deadlock");
    _exit(42);
  }
  int idx = 0;
  if (n > 1 || true)
  {
    idx = g.ch ? g.ch->pick(n, ids, cur_runnable, kind, g.out.steps) : 0;
    if (idx < 0 || idx >= n)
      idx = 0;
  }
  if (g.rec && n > 1)
  {
    Step s;
    memset(&s, 0, sizeof s);
    s.n = (uint8_t)n;
    s.chosen = (uint8_t)idx;
    s.tid = (uint8_t)ids[idx];
    s.cur_runnable = cur_runnable;
    for (int i = 0; i < n && i < 20; i++)
      s.alts[i] = (uint8_t)ids[i];
    allocfault::Exempt af_;
    g.out.trace.push_back(s);
  }
  int next = ids[idx];
  if (next == tl_self)
    return;
  if (g.ts[next]->st == BLK_CV)
  {
    // a thread in a timed wait picked although nobody notified it: its timeout fires now
    g.ts[next]->st = RUNNABLE;
    g.ts[next]->timed_out = true;
  }
  g.out.switches++;
  if (cur_runnable)
    g.out.preemptions++;
  g.cur = next;
  g.ts[next]->wake.notify_one();
  if (me->st == DONE)
    return;
  me->wake.wait(lk, [&] { return g.cur == tl_self; });
}

void begin(Chooser *c, uint64_t max_steps, bool record_trace)
{
  std::unique_lock<real_mutex> lk(g.m);
  g.ts.clear();
  g.ch = c;
  g.max_steps = max_steps;
  g.rec = record_trace;
  g.out = Outcome();
  auto t = std::make_unique<VT>();
  t->id = 0;
  g.ts.push_back(std::move(t));
  tl_self = 0;
  g.cur = 0;
  g.active = true;
}

Outcome end()
{
  {
    std::unique_lock<real_mutex> lk(g.m);
    g.active = false;
    g.out.nthreads = (int)g.ts.size();
    // threads that never finished (not joined by the code under test) cannot be waited for
    for (auto &t : g.ts)
      if (t->id != 0 && t->st != DONE)
      {
        g.out.deadlock = true;
        g.out.blocked_desc = "unfinished thread at end of operation";
        on_fatal("deadlock");
        _exit(42);
      }
  }
  for (auto &t : g.ts)
    if (t->th.joinable())
      t->th.join();
  g.ts.clear();
  tl_self = -1;
  return g.out;
}

void point(int kind, const void *obj)
{
  (void)obj;
  if (!g.active)
    return;
  std::unique_lock<real_mutex> lk(g.m);
  if (++g.out.steps > g.max_steps)
  {
    g.out.steplimit = true;
    on_fatal("steplimit");
    _exit(43);
  }
  handover(lk, kind);
}

static void block(std::unique_lock<real_mutex> &lk, St st, const void *on)
{
  VT *me = g.ts[tl_self].get();
  me->st = st;
  me->on = on;
  handover(lk, K_BLOCKED);
}

void mutex::lock()
{
  if (!g.active)
  {
    owner = 0;
    return;
  }
  point(K_LOCK, this);
  std::unique_lock<real_mutex> lk(g.m);
  while (owner != -1)
    block(lk, BLK_MUTEX, this);
  owner = tl_self;
}
bool mutex::try_lock()
{
  if (!g.active)
  {
    owner = 0;
    return true;
  }
  point(K_LOCK, this);
  std::unique_lock<real_mutex> lk(g.m);
  if (owner != -1)
    return false;
  owner = tl_self;
  return true;
}
void mutex::unlock()
{
  if (!g.active)
  {
    owner = -1;
    return;
  }
  {
    std::unique_lock<real_mutex> lk(g.m);
    owner = -1;
    for (auto &t : g.ts)
      if (t->st == BLK_MUTEX && t->on == this)
        t->st = RUNNABLE;
  }
  // releasing a lock is a schedule point as well: another thread may run between the unlock and the
  // unlocking thread's next (possibly unsynchronised) access
  point(K_UNLOCK, this);
}
void mutex::release_in_wait()
{
  owner = -1;
  for (auto &t : g.ts)
    if (t->st == BLK_MUTEX && t->on == this)
      t->st = RUNNABLE;
}
void condition_variable::wait(std::unique_lock<mutex> &ul)
{
  if (!g.active)
    return;
  point(K_CVWAIT, this);
  uint64_t ord;
  mutex *m = ul.mutex();
  {
    std::unique_lock<real_mutex> lk(g.m);
    ord = g.out.cvwaits++;
  }
  if (g.ch && g.ch->spurious(ord))
  {
    // a spurious wake-up: the wait returns although nobody notified (legal in C++)
    {
      std::unique_lock<real_mutex> lk(g.m);
      g.out.spurious++;
      m->release_in_wait();
    }
    point(K_SPURIOUS, this);
    m->lock();
    return;
  }
  {
    // releasing the mutex, registering as a waiter and blocking are one atomic step, as the standard requires
    std::unique_lock<real_mutex> lk(g.m);
    m->release_in_wait();
    {
      allocfault::Exempt af_;
      waiters.push_back(tl_self);
    }
    block(lk, BLK_CV, this);
  }
  m->lock();
}
bool condition_variable::timed_wait(std::unique_lock<mutex> &ul)
{
  if (!g.active)
    return true;
  point(K_CVWAIT, this);
  mutex *m = ul.mutex();
  bool to;
  {
    std::unique_lock<real_mutex> lk(g.m);
    g.out.cvwaits++;
    VT *me = g.ts[tl_self].get();
    m->release_in_wait();
    {
      allocfault::Exempt af_;
      waiters.push_back(tl_self);
    }
    me->timed = true;
    me->timed_out = false;
    block(lk, BLK_CV, this);
    me->timed = false;
    to = me->timed_out;
    me->timed_out = false;
    if (to)
      for (size_t i = 0; i < waiters.size(); i++)
        if (waiters[i] == tl_self)
        {
          waiters.erase(waiters.begin() + i);
          break;
        }
  }
  m->lock();
  return to;
}
void condition_variable::notify_all()
{
  if (!g.active)
    return;
  point(K_NOTIFY, this);
  std::unique_lock<real_mutex> lk(g.m);
  for (int w : waiters)
    if (g.ts[w]->st == BLK_CV && g.ts[w]->on == this)
      g.ts[w]->st = RUNNABLE;
  waiters.clear();
}
void condition_variable::notify_one()
{
  if (!g.active)
    return;
  point(K_NOTIFY, this);
  std::unique_lock<real_mutex> lk(g.m);
  if (!waiters.empty())
  {
    int w = waiters.front();
    waiters.erase(waiters.begin());
    if (g.ts[w]->st == BLK_CV && g.ts[w]->on == this)
      g.ts[w]->st = RUNNABLE;
  }
}
void destroyed_joinable()
{
  g.out.deadlock = true;
  g.out.blocked_desc = "joinable thread destroyed or overwritten without join (std::terminate)";
  on_fatal("deadlock");
  _exit(42);
}
void thread::start(std::function<void()> f)
{
  if (!g.active)
  {
    fprintf(stderr, "vsched::thread created outside a scheduler session\n");
    abort();
  }
  std::unique_lock<real_mutex> lk(g.m);
  allocfault::exempt++; // bookkeeping and the OS thread belong to the harness (until just before the schedule point)
  int id = (int)g.ts.size();
  auto t = std::make_unique<VT>();
  t->id = id;
  VT *tp = t.get();
  g.ts.push_back(std::move(t));
  vid = id;
  tp->th = real_thread([id, f]() {
    tl_self = id;
    {
      std::unique_lock<real_mutex> lk(g.m);
      g.ts[id]->wake.wait(lk, [&] { return g.cur == id; });
    }
    f();
    std::unique_lock<real_mutex> lk(g.m);
    g.ts[id]->st = DONE;
    for (auto &o : g.ts)
      if (o->st == BLK_JOIN && o->join_target == id)
        o->st = RUNNABLE;
    handover(lk, K_EXIT);
  });
  allocfault::exempt--;
  lk.unlock();
  point(K_SPAWN, nullptr);
}
void thread::join()
{
  if (vid < 0)
    return;
  point(K_JOIN, nullptr);
  std::unique_lock<real_mutex> lk(g.m);
  while (g.ts[vid]->st != DONE)
  {
    g.ts[tl_self]->join_target = vid;
    block(lk, BLK_JOIN, nullptr);
  }
  vid = -1;
}
} // namespace vsched

#endif
