// Helpers for the properties that feed modified / malformed files to verify and decrypt.
#pragma once
#include "pipe.h"

struct DV
{
  bool evaluated = false; // false: not run because an earlier file of the batch already failed
  ChildStatus st = CH_OK; // how the child that ran this file ended
  std::string detail;
  bool vret = false, dret = false;
  bytes dout;
  uint32_t d_writes = 0, v_out_writes = 0, v_in_writes = 0, d_in_writes = 0;
  uint64_t d_written_bytes = 0;
  bool v_in_same = true, d_in_same = true;
};

// edits: a list of byte-level modifications applied in order
//   X:off:val      xor byte at off with val            S:off:hex      overwrite bytes at off
//   I:off:hex      insert bytes before off             D:off:len      delete len bytes at off
//   T:len          truncate to len                     A:hex          append bytes
//   W:off1:off2:len swap two ranges
bytes apply_edits(const bytes &file, const std::string &edits);

// run verify (with an output stream supplied) and decrypt on every file in one forked child (canonical
// schedule); if the batch child does not survive, every file is re-run in its own child to attribute it
// batch_only (optional): set when a batch child did not end normally although every one of its files, run alone in its
// own child, did - something an earlier file of the batch left behind in the process
std::vector<DV> batch_dv(const std::vector<bytes> &files, const std::vector<bytes> &keys, int T, int chunk, int refill = 0, std::string *batch_only = nullptr);

// authenticity as the reference sees it: magic ok, mode bytes in range, >= 74 bytes, stored tag == HMAC(key, file[48:])
bool ref_authentic(const bytes &file, const bytes &key);

// offsets at which `a` and `b` differ (for equal lengths), or empty + differ_len
std::vector<size_t> diff_offsets(const bytes &a, const bytes &b);

// the C11 oracle for one input (shared by the rapidcheck property and the libFuzzer target)
std::string c11_judge(const bytes &file, const bytes &key, int T, const DV &r);

// key of the seed-corpus files of the C11 libFuzzer target
static const uint8_t FUZZ_KEYA[16] = {0x10, 0x21, 0x32, 0x43, 0x54, 0x65, 0x76, 0x87, 0x98, 0xa9, 0xba, 0xcb, 0xdc, 0xed, 0xfe, 0x0f};

// the base file of a tamper case: built by the independent format specification, or (toolbase) written by
// execute_encrypt itself in a forked child under the canonical schedule; empty if that encryption failed
bytes base_file(const EncCase &e, bool toolbase);

// One operation (verify with an output stream supplied, or decrypt) in its own forked child, canonical
// schedule, with the n-th allocation of the code under test failing once (n = -1: count only).
struct FaultRun
{
  ChildStatus st = CH_OK;
  std::string detail;
  wapi::OpOut o;
};
FaultRun run_faulted(bool is_decrypt, const bytes &file, const bytes &key, const EncCase &e, long n, long read_fail_at = -1, bool read_fail_once = false);
