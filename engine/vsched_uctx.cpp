// Coroutine backend of the deterministic scheduler (same interface and the same scheduling semantics as
// vsched.cpp): every virtual thread is a ucontext with its own stack on ONE OS thread, so a context
// switch costs two sigprocmask calls instead of two futex round trips plus an OS thread per virtual
// thread. Used by the sanitizer-free `schedfast` builds (-DVS_UCONTEXT); the ASan builds keep OS threads.
// Equivalence with the thread backend is checked by the systematic enumerator: both visit exactly the
// same number of schedules for every configuration of the matrix (DESIGN.md section 9).
#ifdef VS_UCONTEXT
#include "vsched.h"
#include "allocfault.h"
#include <ucontext.h>
#include <sys/mman.h>
#include <unistd.h>
#include <string.h>
namespace vsched
{
struct VT
{
  int id;
  St st = RUNNABLE;
  const void *on = nullptr;
  int join_target = -1;
  bool timed = false, timed_out = false;
  ucontext_t ctx;
  void *stack = nullptr;
  size_t stack_size = 0;
  std::function<void()> fn;
};

struct G
{
  std::vector<VT *> ts;
  int cur = -1;
  bool active = false;
  Chooser *ch = nullptr;
  uint64_t max_steps = 0;
  Outcome out;
};
static G g;

static void default_fatal(const char *what)
{
  fprintf(stderr, "VSCHED-FATAL %s steps=%llu %s\n", what, (unsigned long long)g.out.steps, g.out.blocked_desc.c_str());
  _exit(what[0] == 'd' ? 42 : 43);
}
void (*on_fatal)(const char *what) = default_fatal;

int self() { return g.cur; }
bool active() { return g.active; }
Outcome &current() { return g.out; }

static const char *stname(St s)
{
  switch (s)
  {
  case RUNNABLE:
    return "runnable";
  case BLK_MUTEX:
    return "mutex";
  case BLK_CV:
    return "cv";
  case BLK_JOIN:
    return "join";
  default:
    return "done";
  }
}

static void handover(int kind)
{
  int ids[64], n = 0;
  bool cur_runnable = false;
  VT *me = g.ts[g.cur];
  if (me->st == RUNNABLE)
  {
    ids[n++] = g.cur;
    cur_runnable = true;
  }
  for (VT *t : g.ts)
    if ((t->st == RUNNABLE || (t->st == BLK_CV && t->timed)) && t->id != g.cur)
      ids[n++] = t->id;
  if (n == 0)
  {
    bool all_done = true;
    for (VT *t : g.ts)
      if (t->st != DONE)
        all_done = false;
    if (all_done)
      return;
    g.out.deadlock = true;
    std::string d;
    for (VT *t : g.ts)
    {
      char b[96];
      snprintf(b, sizeof b, "t%d:%s ", t->id, stname(t->st));
      d += b;
    }
    g.out.blocked_desc = d;
    on_fatal("deadlock");
    _exit(42);
  }
  int idx = g.ch ? g.ch->pick(n, ids, cur_runnable, kind, g.out.steps) : 0;
  if (idx < 0 || idx >= n)
    idx = 0;
  int next = ids[idx];
  if (next == g.cur)
    return;
  if (g.ts[next]->st == BLK_CV)
  {
    g.ts[next]->st = RUNNABLE; // timed wait: the (virtual) timeout fires
    g.ts[next]->timed_out = true;
  }
  g.out.switches++;
  if (cur_runnable)
    g.out.preemptions++;
  int prev = g.cur;
  g.cur = next;
  swapcontext(&g.ts[prev]->ctx, &g.ts[next]->ctx);
  // resumed: g.cur == prev again (set by whoever switched back to us)
}

void begin(Chooser *c, uint64_t max_steps, bool)
{
  for (VT *t : g.ts)
    delete t;
  g.ts.clear();
  g.ch = c;
  g.max_steps = max_steps;
  g.out = Outcome();
  VT *t = new VT;
  t->id = 0;
  g.ts.push_back(t);
  g.cur = 0;
  g.active = true;
}

Outcome end()
{
  g.active = false;
  g.out.nthreads = (int)g.ts.size();
  for (VT *t : g.ts)
    if (t->id != 0 && t->st != DONE)
    {
      g.out.deadlock = true;
      g.out.blocked_desc = "unfinished thread at end of operation";
      on_fatal("deadlock");
      _exit(42);
    }
  for (VT *t : g.ts)
  {
    if (t->stack)
      munmap(t->stack, t->stack_size);
    delete t;
  }
  g.ts.clear();
  g.cur = -1;
  return g.out;
}

void point(int kind, const void *)
{
  if (!g.active)
    return;
  if (++g.out.steps > g.max_steps)
  {
    g.out.steplimit = true;
    on_fatal("steplimit");
    _exit(43);
  }
  handover(kind);
}

static void block(St st, const void *on)
{
  VT *me = g.ts[g.cur];
  me->st = st;
  me->on = on;
  handover(K_BLOCKED);
}

void mutex::lock()
{
  if (!g.active)
  {
    owner = 0;
    return;
  }
  point(K_LOCK, this);
  while (owner != -1)
    block(BLK_MUTEX, this);
  owner = g.cur;
}
bool mutex::try_lock()
{
  if (!g.active)
  {
    owner = 0;
    return true;
  }
  point(K_LOCK, this);
  if (owner != -1)
    return false;
  owner = g.cur;
  return true;
}
void mutex::unlock()
{
  if (!g.active)
  {
    owner = -1;
    return;
  }
  owner = -1;
  for (VT *t : g.ts)
    if (t->st == BLK_MUTEX && t->on == this)
      t->st = RUNNABLE;
  point(K_UNLOCK, this);
}
void mutex::release_in_wait()
{
  owner = -1;
  for (VT *t : g.ts)
    if (t->st == BLK_MUTEX && t->on == this)
      t->st = RUNNABLE;
}
void condition_variable::wait(std::unique_lock<mutex> &ul)
{
  if (!g.active)
    return;
  point(K_CVWAIT, this);
  uint64_t ord = g.out.cvwaits++;
  mutex *m = ul.mutex();
  if (g.ch && g.ch->spurious(ord))
  {
    g.out.spurious++;
    m->release_in_wait();
    point(K_SPURIOUS, this);
    m->lock();
    return;
  }
  m->release_in_wait();
  {
    allocfault::Exempt af_;
    waiters.push_back(g.cur);
  }
  block(BLK_CV, this);
  m->lock();
}
bool condition_variable::timed_wait(std::unique_lock<mutex> &ul)
{
  if (!g.active)
    return true;
  point(K_CVWAIT, this);
  g.out.cvwaits++;
  mutex *m = ul.mutex();
  VT *me = g.ts[g.cur];
  int self_id = g.cur;
  m->release_in_wait();
  {
    allocfault::Exempt af_;
    waiters.push_back(self_id);
  }
  me->timed = true;
  me->timed_out = false;
  block(BLK_CV, this);
  me->timed = false;
  bool to = me->timed_out;
  me->timed_out = false;
  if (to)
    for (size_t i = 0; i < waiters.size(); i++)
      if (waiters[i] == self_id)
      {
        waiters.erase(waiters.begin() + i);
        break;
      }
  m->lock();
  return to;
}
void condition_variable::notify_all()
{
  if (!g.active)
    return;
  point(K_NOTIFY, this);
  for (int w : waiters)
    if (g.ts[w]->st == BLK_CV && g.ts[w]->on == this)
      g.ts[w]->st = RUNNABLE;
  waiters.clear();
}
void condition_variable::notify_one()
{
  if (!g.active)
    return;
  point(K_NOTIFY, this);
  if (!waiters.empty())
  {
    int w = waiters.front();
    waiters.erase(waiters.begin());
    if (g.ts[w]->st == BLK_CV && g.ts[w]->on == this)
      g.ts[w]->st = RUNNABLE;
  }
}
void destroyed_joinable()
{
  g.out.deadlock = true;
  g.out.blocked_desc = "joinable thread destroyed or overwritten without join (std::terminate)";
  on_fatal("deadlock");
  _exit(42);
}
static void trampoline()
{
  VT *me = g.ts[g.cur];
  me->fn();
  me->st = DONE;
  for (VT *o : g.ts)
    if (o->st == BLK_JOIN && o->join_target == me->id)
      o->st = RUNNABLE;
  handover(K_EXIT);
  // never resumed: nobody switches back to a DONE thread
  _exit(44);
}
void thread::start(std::function<void()> f)
{
  if (!g.active)
  {
    fprintf(stderr, "vsched::thread created outside a scheduler session\n");
    abort();
  }
  allocfault::exempt++; // bookkeeping belongs to the harness (until just before the schedule point)
  VT *t = new VT;
  t->id = (int)g.ts.size();
  t->fn = f;
  t->stack_size = 1u << 20;
  t->stack = mmap(NULL, t->stack_size, PROT_READ | PROT_WRITE, MAP_PRIVATE | MAP_ANONYMOUS | MAP_STACK, -1, 0);
  if (t->stack == MAP_FAILED)
  {
    perror("mmap");
    _exit(97);
  }
  getcontext(&t->ctx);
  t->ctx.uc_stack.ss_sp = t->stack;
  t->ctx.uc_stack.ss_size = t->stack_size;
  t->ctx.uc_link = nullptr;
  makecontext(&t->ctx, trampoline, 0);
  g.ts.push_back(t);
  vid = t->id;
  allocfault::exempt--;
  point(K_SPAWN, nullptr);
}
void thread::join()
{
  if (vid < 0)
    return;
  point(K_JOIN, nullptr);
  while (g.ts[vid]->st != DONE)
  {
    g.ts[g.cur]->join_target = vid;
    block(BLK_JOIN, nullptr);
  }
  vid = -1;
}
} // namespace vsched
#endif
