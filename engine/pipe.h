// Helpers shared by the properties that run the encrypt / decrypt / verify pipeline.
#pragma once
#include "harness.h"
#include "gen.h"

struct EncCase
{
  bytes P, key, seed;
  int cmode = 1, hmode = 0, T = 4, chunk = 64, outbuf = 0, refill = 0;
  int fsz0 = 0;    // the caller does not know the size of its input and passes 0 to execute_* (what the CLI does for a pipe)
  int pipe_in = 0; // the input stream cannot seek
  int inbuf = 0;   // 1: the input stream is unbuffered
  wapi::SchedSpec s1, s2; // schedules of the first / second operation
  uint64_t plen = 0;
};

inline EncCase enc_from(const Case &c)
{
  EncCase e;
  e.plen = (uint64_t)c.geti("plen");
  e.P = c.has("P") ? c.getb("P") : expand((uint64_t)strtoull(c.get("pseed", "0").c_str(), NULL, 10), e.plen, (int)c.geti("pstyle"));
  e.key = c.getb("key");
  e.key.resize(16);
  e.seed = c.getb("seed");
  for (auto &x : e.seed) // the seed is passed as a C string: NUL bytes are not part of the domain
    if (x == 0)
      x = 0x5a;
  e.cmode = (int)c.geti("cmode");
  e.hmode = (int)c.geti("hmode");
  e.T = (int)c.geti("T", 4);
  e.chunk = (int)c.geti("chunk", 64);
  e.outbuf = (int)c.geti("outbuf", 0);
  e.refill = (int)c.geti("refill", 0);
  e.fsz0 = (int)c.geti("fsz0", 0);
  e.pipe_in = (int)c.geti("pipe_in", 0);
  e.inbuf = (int)c.geti("inbuf", 0);
  e.s1 = wapi::SchedSpec::parse(c.get("sched", "k0"));
  e.s2 = wapi::SchedSpec::parse(c.get("sched2", "k0"));
  return e;
}
inline ref::FileParams fparams(const EncCase &e)
{
  ref::FileParams fp;
  fp.key = e.key;
  fp.seed = e.seed;
  fp.cmode = e.cmode;
  fp.hmode = e.hmode;
  fp.T = e.T;
  fp.chunk = (size_t)e.chunk;
  return fp;
}
inline wapi::PipeCfg pcfg(const EncCase &e, const wapi::SchedSpec &s)
{
  wapi::PipeCfg pc;
  pc.T = e.T;
  pc.chunk = e.chunk;
  pc.sched = s;
  pc.outbuf = e.outbuf;
  pc.refill = e.refill;
  if (e.fsz0)
    pc.fsize_hint = 0;
  pc.in_noseek = e.pipe_in != 0;
  pc.inbuf = e.inbuf;
  return pc;
}

// is `len` a boundary length w.r.t. block and chunk size?
inline bool boundary_len(uint64_t len, int chunk)
{
  uint64_t r = len % (uint64_t)chunk;
  return len == 0 || r <= 1 || r >= (uint64_t)chunk - 17 || (len % 16) <= 1 || (len % 16) == 15;
}

struct GenOpts
{
  int maxT = 16;
  std::vector<int> chunks = {16, 32, 48, 64, 80, 128, 256};
  int max_chunks_extra = 1; // q in 0..2T+extra
  bool schedules = true;
  bool two_scheds = true;
  size_t max_len = 4096;
  int minT = 1;
};

// a non-NUL seed string: lengths include the residues >= 56 mod 64 (hash padding threshold)
inline bytes gen_seed()
{
  long kind = g::range(0, 10);
  size_t n;
  if (kind < 3)
    n = (size_t)g::range(0, 17);
  else if (kind < 6)
    n = (size_t)g::oneof<long>({55, 56, 57, 63, 64, 65, 119, 120, 127, 128, 183, 184, 200, 255});
  else if (kind < 8)
    n = (size_t)g::oneof<long>({254, 255, 256, 257, 258, 300, 311, 312, 511, 512, 513, 600}); // the CLI passes a 256-byte random buffer
  else
    n = (size_t)g::range(0, 256);
  bytes b = expand(g::u64(), n, 0);
  for (auto &x : b)
    if (x == 0)
      x = 0x5a;
  return b;
}
inline bytes gen_key()
{
  long kind = g::range(0, 20);
  if (kind == 0)
    return bytes(16, 0x00);
  if (kind == 1)
    return bytes(16, 0xff);
  bytes k = expand(g::u64(), 16, 0);
  if (kind == 2 || kind == 3) // one 0x00 byte somewhere (binary keys are not C strings)
    k[(size_t)g::range(0, 16)] = 0;
  else if (kind == 4) // several special bytes
    k = expand(g::u64(), 16, 4);
  else if (kind == 5) // every byte has its top bit set
    for (auto &x : k)
      x |= 0x80;
  return k;
}

inline wapi::SchedSpec gen_sched(int T, size_t blocks)
{
  wapi::SchedSpec s;
  if (!wapi::has_scheduler())
    return s;
  long kind = g::range(0, 10);
  size_t est = 6 * (blocks + (size_t)T) + 40;
  if (kind < 2)
    s.kind = 0;
  else if (kind < 6)
  {
    s.kind = 1;
    size_t n = (size_t)g::range(0, (long)std::min<size_t>(est, 400) + 1);
    s.walk = g::raw(n);
    // bias towards "mostly continue": zero out a generated fraction of the choices
    long keep = g::range(0, 4);
    if (keep)
      for (size_t i = 0; i < s.walk.size(); i++)
        if ((i * 2654435761u >> 3) % 4 < (size_t)keep)
          s.walk[i] = 0;
  }
  else
  {
    s.kind = 2;
    for (int i = 0; i <= T; i++)
      s.prio.push_back((int)g::range(0, 1000));
    long nch = g::range(0, 7);
    for (long i = 0; i < nch; i++)
      s.change.push_back((uint32_t)g::range(0, (long)est));
  }
  long nsp = g::range(0, 10) < 2 ? g::range(1, 3) : 0;
  for (long i = 0; i < nsp; i++)
    s.spurious.push_back((uint32_t)g::range(0, 3 * T + 6));
  return s;
}

// plaintext length built relative to the chunk size
inline uint64_t gen_len(int chunk, int T, const GenOpts &o)
{
  long maxq = std::min<long>(2 * T + 1 + o.max_chunks_extra, (long)(o.max_len / (size_t)chunk) - 1);
  if (maxq < 0)
    maxq = 0;
  long q = g::range(0, maxq + 1);
  long r;
  if (g::coin(50))
  {
    std::vector<long> b = {0, 1, 15, 16, 17};
    for (int d = 17; d >= 1; d--)
      if (chunk - d >= 0)
        b.push_back(chunk - d);
    r = b[(size_t)g::range(0, (long)b.size())] % chunk;
  }
  else
    r = g::range(0, chunk);
  uint64_t len = (uint64_t)q * (uint64_t)chunk + (uint64_t)r;
  return len;
}

inline void gen_enc(Case &c, const GenOpts &o = GenOpts())
{
  int chunk = o.chunks[(size_t)g::range(0, (long)o.chunks.size())];
  if (chunk > wapi::chunk_capacity())
    chunk = wapi::chunk_capacity();
  int T = (int)g::range(o.minT, o.maxT + 1);
  if (g::coin(60))
    T = (int)g::range(o.minT, std::min(o.maxT, 4) + 1); // small T most of the time: more chunks per stream
  uint64_t len = gen_len(chunk, T, o);
  if (o.max_len >= 8192 && g::coin(3))
  {
    // now and then several hundred chunks (counters that fit a byte for ordinary files would wrap)
    chunk = 16;
    T = (int)g::range(o.minT, std::min(o.maxT, 3) + 1);
    len = (uint64_t)g::range(250, 600) * 16 + (uint64_t)g::range(0, 16);
  }
  c.seti("plen", (long long)len);
  c.set("pseed", std::to_string(g::u64()));
  c.seti("pstyle", g::range(0, 10) < 6 ? 0 : g::range(1, 5));
  c.setb("key", gen_key());
  c.setb("seed", gen_seed());
  c.seti("cmode", g::range(0, 5));
  c.seti("hmode", g::range(0, 3));
  c.seti("T", T);
  c.seti("chunk", chunk);
  {
    // hash file-buffer refill size (64-byte units): small values put refill boundaries inside small files
    long rf = g::oneof<long>({1, 2, 3, 5, 8, 16});
    if (rf > wapi::refill_capacity())
      rf = wapi::refill_capacity();
    c.seti("refill", rf);
  }
  // one case in eight passes 0 as the size of the input (the size only feeds the progress display; a caller that
  // reads from a pipe does not know it)
  if (g::coin(12))
    c.seti("fsz0", 1);
  size_t blocks = (size_t)(len / 16 + 1);
  if (o.schedules)
  {
    c.set("sched", gen_sched(T, blocks).text());
    if (o.two_scheds)
      c.set("sched2", gen_sched(T, blocks).text());
  }
}

inline uint64_t nchunks_of(uint64_t padded_len, int chunk) { return (padded_len + (uint64_t)chunk - 1) / (uint64_t)chunk; }
inline uint64_t padded(uint64_t len) { return (len / 16 + 1) * 16; }
