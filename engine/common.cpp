#include "common.h"
#include <unistd.h>
#include <sys/wait.h>
#include <poll.h>
#include <signal.h>
#include <errno.h>
#include <time.h>

std::string json_escape(const std::string &s)
{
  std::string o;
  for (unsigned char c : s)
  {
    if (c == '"')
      o += "\\\"";
    else if (c == '\\')
      o += "\\\\";
    else if (c == '\n')
      o += "\\n";
    else if (c == '\r')
      o += "\\r";
    else if (c == '\t')
      o += "\\t";
    else if (c < 0x20 || c >= 0x7f)
    {
      char b[8];
      snprintf(b, sizeof b, "\\u%04x", c);
      o += b;
    }
    else
      o += (char)c;
  }
  return o;
}

void write_stats(const Stats &s, const std::string &dir, const std::string &prop, int shard)
{
  std::string base = dir + "/" + prop + ".shard" + std::to_string(shard);
  std::string j = "{\n";
  j += "\"evaluations\": " + std::to_string(s.evaluations) + ",\n";
  j += "\"violations\": " + std::to_string(s.violations) + ",\n";
  j += "\"first_violation\": \"" + json_escape(s.first_violation_msg) + "\",\n";
  j += "\"classes\": {";
  bool first = true;
  for (auto &p : s.classes)
  {
    j += (first ? "" : ", ");
    j += "\"" + json_escape(p.first) + "\": " + std::to_string(p.second);
    first = false;
  }
  j += "},\n\"known\": {";
  first = true;
  for (auto &p : s.known)
  {
    j += (first ? "" : ", ");
    j += "\"" + json_escape(p.first) + "\": " + std::to_string(p.second);
    first = false;
  }
  j += "},\n\"info\": {";
  first = true;
  for (auto &p : s.info)
  {
    j += (first ? "" : ", ");
    j += "\"" + json_escape(p.first) + "\": \"" + json_escape(p.second) + "\"";
    first = false;
  }
  j += "},\n\"samples\": [";
  first = true;
  for (auto &p : s.samples)
  {
    j += (first ? "" : ", ");
    j += "\"" + json_escape(p) + "\"";
    first = false;
  }
  j += "]\n}\n";
  write_file(base + ".json", j);
  std::string nt;
  nt.reserve(s.nontrivial.size() * 8);
  for (uint64_t h : s.nontrivial)
    nt.append((const char *)&h, 8);
  write_file(base + ".nt", nt);
}

int g_child_stderr_fd = -1;
int g_child_fd = -1;

std::string ChildResult::describe() const
{
  switch (status)
  {
  case CH_OK:
    return "ok";
  case CH_DEADLOCK:
    return "deadlock (no runnable thread while a thread is unfinished): " + detail;
  case CH_STEPLIMIT:
    return "step limit exceeded (endless loop): " + detail;
  case CH_SIGNAL:
    return "killed by signal " + std::to_string(code) + (code == SIGSEGV ? " (SIGSEGV)" : code == SIGABRT ? " (SIGABRT)" : "");
  case CH_EXIT:
    return "exited with code " + std::to_string(code) + " (sanitizer report or exit() inside the library)";
  case CH_TIMEOUT:
    return "wall-clock watchdog";
  }
  return "?";
}

static bool write_all(int fd, const uint8_t *p, size_t n)
{
  while (n)
  {
    ssize_t k = write(fd, p, n);
    if (k < 0)
    {
      if (errno == EINTR)
        continue;
      return false;
    }
    p += k;
    n -= k;
  }
  return true;
}

ChildResult run_in_child(const std::function<bytes()> &fn, int timeout_s)
{
  ChildResult r;
  int pfd[2];
  if (pipe(pfd) != 0)
  {
    perror("pipe");
    exit(2);
  }
  fflush(stdout);
  fflush(stderr);
  pid_t pid = fork();
  if (pid < 0)
  {
    perror("fork");
    exit(2);
  }
  if (pid == 0)
  {
    close(pfd[0]);
    g_child_fd = pfd[1];
    if (g_child_stderr_fd >= 0)
      dup2(g_child_stderr_fd, 2);
    bytes pl = fn();
    uint8_t st = 0;
    write_all(pfd[1], &st, 1);
    write_all(pfd[1], pl.data(), pl.size());
    _exit(0);
  }
  close(pfd[1]);
  bytes data;
  uint8_t buf[65536];
  struct timespec ts0;
  clock_gettime(CLOCK_MONOTONIC, &ts0);
  bool timed_out = false;
  for (;;)
  {
    struct pollfd p = {pfd[0], POLLIN, 0};
    int pr = poll(&p, 1, 1000);
    if (pr < 0 && errno == EINTR)
      continue;
    if (pr > 0)
    {
      ssize_t k = read(pfd[0], buf, sizeof buf);
      if (k > 0)
        data.insert(data.end(), buf, buf + k);
      else if (k == 0)
        break;
      else if (errno != EINTR)
        break;
    }
    struct timespec ts1;
    clock_gettime(CLOCK_MONOTONIC, &ts1);
    if (ts1.tv_sec - ts0.tv_sec > timeout_s)
    {
      timed_out = true;
      kill(pid, SIGKILL);
      break;
    }
  }
  close(pfd[0]);
  int st = 0;
  while (waitpid(pid, &st, 0) < 0 && errno == EINTR)
  {
  }
  if (timed_out)
  {
    r.status = CH_TIMEOUT;
    return r;
  }
  if (WIFSIGNALED(st))
  {
    r.status = CH_SIGNAL;
    r.code = WTERMSIG(st);
    return r;
  }
  int ec = WEXITSTATUS(st);
  if (!data.empty() && (data[0] == 1 || data[0] == 2) && (ec == 42 || ec == 43))
  {
    r.status = data[0] == 1 ? CH_DEADLOCK : CH_STEPLIMIT;
    bytes rest(data.begin() + 1, data.end());
    De d(rest);
    r.detail = d.str();
    r.payload = d.blob();
    return r;
  }
  if (ec != 0 || data.empty() || data[0] != 0)
  {
    r.status = CH_EXIT;
    r.code = ec;
    // ThreadSanitizer builds (log_path=tsanlog, halt_on_error): the report of the child, if it made one
    char lp[64];
    snprintf(lp, sizeof lp, "tsanlog.%d", (int)pid);
    if (FILE *lf = fopen(lp, "rb"))
    {
      char cb[4096];
      size_t k;
      while ((k = fread(cb, 1, sizeof cb, lf)) > 0 && r.detail.size() < (1u << 20))
        r.detail.append(cb, k);
      fclose(lf);
      unlink(lp);
      r.code = 97;
    }
    return r;
  }
  r.payload.assign(data.begin() + 1, data.end());
  return r;
}
