// Shared harness utilities: byte strings, case text, verdicts, statistics, fork-per-case runner.
// Nothing in here includes wencry headers.
#pragma once
#include <cstdint>
#include <cstdio>
#include <cstdlib>
#include <cstring>
#include <string>
#include <vector>
#include <map>
#include <set>
#include <functional>
#include <algorithm>
#include <unordered_set>

typedef std::vector<uint8_t> bytes;

inline std::string hex(const uint8_t *p, size_t n)
{
  static const char *d = "0123456789abcdef";
  std::string s;
  s.reserve(n * 2);
  for (size_t i = 0; i < n; i++)
  {
    s += d[p[i] >> 4];
    s += d[p[i] & 15];
  }
  return s;
}
inline std::string hex(const bytes &b) { return hex(b.data(), b.size()); }
inline bytes unhex(const std::string &s)
{
  bytes b;
  auto v = [](char c) -> int { return c <= '9' ? c - '0' : (c | 32) - 'a' + 10; };
  for (size_t i = 0; i + 1 < s.size(); i += 2)
    b.push_back((uint8_t)(v(s[i]) << 4 | v(s[i + 1])));
  return b;
}
inline uint64_t fnv64(const void *p, size_t n, uint64_t h = 1469598103934665603ull)
{
  const uint8_t *b = (const uint8_t *)p;
  for (size_t i = 0; i < n; i++)
  {
    h ^= b[i];
    h *= 1099511628211ull;
  }
  return h;
}
inline uint64_t fnv64(const std::string &s, uint64_t h = 1469598103934665603ull) { return fnv64(s.data(), s.size(), h); }
inline uint64_t mix64(uint64_t x)
{
  x += 0x9E3779B97F4A7C15ull;
  x = (x ^ (x >> 30)) * 0xBF58476D1CE4E5B9ull;
  x = (x ^ (x >> 27)) * 0x94D049BB133111EBull;
  return x ^ (x >> 31);
}

// ------------------------------------------------------------------------------------------------
// A case is an ordered list of key=value lines (bytes in hex). The same text is the replay file.
struct Case
{
  std::vector<std::pair<std::string, std::string>> kv;
  void set(const std::string &k, const std::string &v)
  {
    for (auto &p : kv)
      if (p.first == k)
      {
        p.second = v;
        return;
      }
    kv.push_back({k, v});
  }
  void seti(const std::string &k, long long v) { set(k, std::to_string(v)); }
  void setb(const std::string &k, const bytes &b) { set(k, hex(b)); }
  bool has(const std::string &k) const
  {
    for (auto &p : kv)
      if (p.first == k)
        return true;
    return false;
  }
  std::string get(const std::string &k, const std::string &def = "") const
  {
    for (auto &p : kv)
      if (p.first == k)
        return p.second;
    return def;
  }
  long long geti(const std::string &k, long long def = 0) const
  {
    std::string v = get(k);
    return v.empty() ? def : atoll(v.c_str());
  }
  bytes getb(const std::string &k) const { return unhex(get(k)); }
  std::string text() const
  {
    std::string s;
    for (auto &p : kv)
      s += p.first + "=" + p.second + "\n";
    return s;
  }
  static Case parse(const std::string &t)
  {
    Case c;
    size_t i = 0;
    while (i < t.size())
    {
      size_t e = t.find('\n', i);
      if (e == std::string::npos)
        e = t.size();
      std::string line = t.substr(i, e - i);
      i = e + 1;
      if (line.empty() || line[0] == '#')
        continue;
      size_t q = line.find('=');
      if (q == std::string::npos)
        continue;
      c.kv.push_back({line.substr(0, q), line.substr(q + 1)});
    }
    return c;
  }
};

inline std::string read_file(const std::string &path)
{
  std::string s;
  FILE *f = fopen(path.c_str(), "rb");
  if (!f)
    return s;
  char buf[65536];
  size_t n;
  while ((n = fread(buf, 1, sizeof buf, f)) > 0)
    s.append(buf, n);
  fclose(f);
  return s;
}
inline bool write_file(const std::string &path, const std::string &s)
{
  FILE *f = fopen(path.c_str(), "wb");
  if (!f)
    return false;
  fwrite(s.data(), 1, s.size(), f);
  fclose(f);
  return true;
}

// ------------------------------------------------------------------------------------------------
struct Verdict
{
  bool ok = true;
  std::string msg;          // what failed
  std::string known;        // non-empty: the failure matches this known-finding key (treated as pass, counted)
  bool nontrivial = false;  // by the property's stated rule
  uint64_t distinct = 0;    // 64-bit identity of the case for distinct counting (0 = use text hash)
  std::vector<std::string> classes; // labels for the class histogram
  bool infra = false;       // infrastructure problem (not a verdict)
  bool slow = false;        // the failure costs minutes to re-evaluate (a hang judged by a watchdog): do not shrink it
  uint64_t weight = 1;      // evaluations this case stands for (batched cases)
  std::vector<uint64_t> more_distinct; // identities of the members of a batch (all non-trivial)
  std::string replay_text;  // non-empty: a smaller case reproducing the failure (written as the replay file)
  static Verdict fail(const std::string &m)
  {
    Verdict v;
    v.ok = false;
    v.msg = m;
    return v;
  }
};

// ------------------------------------------------------------------------------------------------
// Statistics of one harness process (one shard); merged by the driver.
struct Stats
{
  uint64_t evaluations = 0;
  std::unordered_set<uint64_t> nontrivial;
  std::map<std::string, uint64_t> classes;
  std::map<std::string, uint64_t> known; // known-finding key -> hits
  std::vector<std::string> samples;      // case texts
  std::map<std::string, std::string> info; // free-form key -> value (exhaustive flags etc.)
  uint64_t violations = 0;
  std::string first_violation_msg;
  uint64_t noted = 0, sample_next = 1, sample_cap = 8;
  void note(const Case &c, const Verdict &v)
  {
    evaluations += v.weight;
    if (v.nontrivial && v.more_distinct.empty())
      nontrivial.insert(v.distinct ? v.distinct : fnv64(c.text()));
    for (uint64_t h : v.more_distinct)
      nontrivial.insert(h);
    for (auto &k : v.classes)
      classes[k]++;
    if (!v.known.empty())
      known[v.known]++;
    if (v.nontrivial && samples.size() < sample_cap && ++noted >= sample_next)
    {
      samples.push_back(c.text());
      sample_next = sample_next * 3 + 1;
    }
  }
  void count(const std::string &k, uint64_t n = 1) { classes[k] += n; }
};

std::string json_escape(const std::string &s);
void write_stats(const Stats &s, const std::string &dir, const std::string &prop, int shard);

// ------------------------------------------------------------------------------------------------
// Fork-per-case runner: run fn in a forked child; the child returns a byte payload through a pipe.
enum ChildStatus
{
  CH_OK = 0,
  CH_DEADLOCK = 1,
  CH_STEPLIMIT = 2,
  CH_SIGNAL = 3,   // killed by a signal (SIGSEGV, SIGABRT from a sanitizer, ...)
  CH_EXIT = 4,     // exited with an unexpected code (sanitizer exitcode, exit() inside wencry)
  CH_TIMEOUT = 5   // wall-clock safety net (inconclusive unless reproducible)
};
struct ChildResult
{
  ChildStatus status = CH_OK;
  int code = 0;         // signal number or exit code
  bytes payload;        // what fn returned (possibly partial on fatal)
  std::string detail;   // deadlock description etc.
  std::string describe() const;
};
// fn runs in the child and returns the payload; use child_fatal_payload to attach data on deadlock.
ChildResult run_in_child(const std::function<bytes()> &fn, int timeout_s = 60);
extern int g_child_stderr_fd; // where children send stderr (log file); -1 = inherit
extern int g_child_fd;        // pipe fd inside the child

// simple binary serialisation
struct Ser
{
  bytes b;
  void u8(uint8_t v) { b.push_back(v); }
  void u32(uint32_t v)
  {
    for (int i = 0; i < 4; i++)
      b.push_back((uint8_t)(v >> (8 * i)));
  }
  void u64(uint64_t v)
  {
    for (int i = 0; i < 8; i++)
      b.push_back((uint8_t)(v >> (8 * i)));
  }
  void blob(const uint8_t *p, size_t n)
  {
    u64(n);
    b.insert(b.end(), p, p + n);
  }
  void blob(const bytes &x) { blob(x.data(), x.size()); }
  void str(const std::string &s) { blob((const uint8_t *)s.data(), s.size()); }
};
struct De
{
  const bytes &b;
  size_t i = 0;
  bool bad = false;
  De(const bytes &x) : b(x) {}
  uint8_t u8()
  {
    if (i + 1 > b.size())
    {
      bad = true;
      return 0;
    }
    return b[i++];
  }
  uint32_t u32()
  {
    uint32_t v = 0;
    for (int k = 0; k < 4; k++)
      v |= (uint32_t)u8() << (8 * k);
    return v;
  }
  uint64_t u64()
  {
    uint64_t v = 0;
    for (int k = 0; k < 8; k++)
      v |= (uint64_t)u8() << (8 * k);
    return v;
  }
  bytes blob()
  {
    uint64_t n = u64();
    if (bad || i + n > b.size())
    {
      bad = true;
      return bytes();
    }
    bytes r(b.begin() + i, b.begin() + i + n);
    i += n;
    return r;
  }
  std::string str()
  {
    bytes x = blob();
    return std::string(x.begin(), x.end());
  }
};
