#include "allocfault.h"
#include <new>
#include <cstdlib>
#include <cstdio>
#if defined(__has_feature)
#if __has_feature(thread_sanitizer)
#define AF_OFF 1
#endif
#endif
#if defined(__SANITIZE_THREAD__) && !defined(AF_OFF)
#define AF_OFF 1
#endif
namespace allocfault
{
thread_local int exempt = 0;
static bool armed = false, did_fire = false;
static long countdown = -1;
static unsigned long n_seen = 0;
static int dbg = -1;
static unsigned long size_lo = 1, size_hi = 0; // size-selected faults (off while lo > hi)
void arm(long nth)
{
  armed = true;
  did_fire = false;
  countdown = nth;
  n_seen = 0;
  size_lo = 1;
  size_hi = 0;
}
void arm_size(unsigned long lo, unsigned long hi)
{
  arm(-1);
  size_lo = lo;
  size_hi = hi;
}
void disarm() { armed = false; }
bool fired() { return did_fire; }
unsigned long seen() { return n_seen; }
#ifdef AF_OFF
bool available() { return false; }
#else
bool available() { return true; }
static inline bool fail_now(unsigned long bytes)
{
  if (!armed || exempt > 0)
    return false;
  n_seen++;
  if (dbg < 0)
    dbg = getenv("WV_DEBUG_ALLOC") ? 1 : 0;
  if (dbg)
    fprintf(stderr, "ALLOC %lu\n", bytes);
  if (bytes >= size_lo && bytes <= size_hi)
  {
    did_fire = true;
    size_lo = 1; // once: the first allocation of that size
    size_hi = 0;
    return true;
  }
  if (countdown == 0)
  {
    countdown = -1;
    did_fire = true;
    return true;
  }
  if (countdown > 0)
    countdown--;
  return false;
}
#endif
} // namespace allocfault
#ifndef AF_OFF
static void *af_alloc(std::size_t n)
{
  if (allocfault::fail_now((unsigned long)n))
    throw std::bad_alloc();
  void *p = malloc(n ? n : 1);
  if (!p)
    throw std::bad_alloc();
  return p;
}
void *operator new(std::size_t n) { return af_alloc(n); }
void *operator new[](std::size_t n) { return af_alloc(n); }
// the nothrow forms too: a sanitizer runtime would otherwise supply its own and pair them with our delete
void *operator new(std::size_t n, const std::nothrow_t &) noexcept
{
  try
  {
    return af_alloc(n);
  }
  catch (...)
  {
    return nullptr;
  }
}
void *operator new[](std::size_t n, const std::nothrow_t &) noexcept
{
  try
  {
    return af_alloc(n);
  }
  catch (...)
  {
    return nullptr;
  }
}
void operator delete(void *p, const std::nothrow_t &) noexcept { free(p); }
void operator delete[](void *p, const std::nothrow_t &) noexcept { free(p); }
void operator delete(void *p) noexcept { free(p); }
void operator delete[](void *p) noexcept { free(p); }
void operator delete(void *p, std::size_t) noexcept { free(p); }
void operator delete[](void *p, std::size_t) noexcept { free(p); }
#endif
