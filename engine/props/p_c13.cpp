// C13 an interrupted encryption never leaves a file that verifies.
#include "../tamper.h"

static Verdict run_c13(const Case &c)
{
  Verdict v;
  EncCase e = enc_from(c);
  wapi::PipeCfg pc = pcfg(e, e.s1);
  pc.want_log = true;
  auto bad = [&](const std::string &m) {
    Verdict f = Verdict::fail(m + " [plaintext " + std::to_string(e.P.size()) + " bytes, cmode " + std::to_string(e.cmode) + ", hmode " + std::to_string(e.hmode) + ", T=" + std::to_string(e.T) + ", chunk " + std::to_string(e.chunk) + ", output buffering " + std::to_string(e.outbuf) + "]");
    f.nontrivial = true;
    f.classes = v.classes;
    return f;
  };
  ChildResult r = run_in_child([&]() { return wapi::encrypt(e.P, e.key, e.seed, e.cmode, e.hmode, pc).ser(); });
  if (r.status == CH_TIMEOUT)
    return v;
  if (r.status != CH_OK)
    return bad("encryption did not complete: " + r.describe());
  wapi::OpOut o = wapi::OpOut::de(r.payload);
  if (!o.ret)
    return bad("encryption reported failure");
  const bytes &final_img = o.out;
  v.classes.push_back("outbuf" + std::to_string(e.outbuf));
  v.classes.push_back("writes=" + std::string(o.log.size() <= 4 ? "<=4" : o.log.size() <= 16 ? "5-16" : ">16"));
  // every prefix of the linear stream of writes: after writes 0..i-1 completely and k bytes of write i
  std::vector<bytes> states;
  std::vector<std::string> labels;
  bytes img;
  size_t hdr_complete = 48 + 20 * (size_t)e.T;
  states.push_back(img);
  labels.push_back("before the first write");
  size_t total_bytes = 0;
  // statistic: does any non-zero byte reach the tag area [10,48) before the last body write?
  long first_tag_write = -1, last_body_write = -1;
  for (size_t i = 0; i < o.log.size(); i++)
  {
    const wapi::WriteRec &w = o.log[i];
    for (size_t k = 0; k < w.data.size(); k++)
    {
      size_t off = (size_t)w.off + k;
      if (off >= 10 && off < 48 && w.data[k] != 0 && first_tag_write < 0)
        first_tag_write = (long)i;
      if (off >= hdr_complete)
        last_body_write = (long)i;
    }
    for (size_t k = 1; k <= w.data.size(); k++)
    {
      size_t end = (size_t)w.off + k;
      if (img.size() < end)
        img.resize(end, 0);
      img[end - 1] = w.data[k - 1];
      total_bytes++;
      states.push_back(img);
      labels.push_back("crash after " + std::to_string(k) + " of " + std::to_string(w.data.size()) + " bytes of write #" + std::to_string(i) + " (offset " + std::to_string(w.off) + ")");
    }
  }
  if (img != final_img)
    return [&] { Verdict f = Verdict::fail("harness: replaying the write log does not reproduce the final file"); f.infra = true; return f; }();
  if (first_tag_write >= 0 && last_body_write >= 0 && first_tag_write > last_body_write)
    v.classes.push_back("tag_written_after_last_body_write");
  else
    v.classes.push_back("tag_written_before_body_complete");
  v.weight = states.size();
  std::vector<DV> res = batch_dv(states, {e.key}, e.T, e.chunk, e.refill);
  bool final_ok = false;
  for (size_t i = 0; i < states.size(); i++)
  {
    const DV &q = res[i];
    if (!q.evaluated || q.st == CH_TIMEOUT)
      continue;
    bool is_final = states[i] == final_img;
    if (!is_final && states[i].size() >= hdr_complete + 1)
      v.more_distinct.push_back(fnv64(states[i].data(), states[i].size(), fnv64(hex(e.key))));
    if (q.st != CH_OK)
      return bad("verify/decrypt of an intermediate state did not terminate normally: " + q.detail + " [" + labels[i] + "]");
    if (is_final)
    {
      if (!q.vret || !q.dret || q.dout != e.P)
        return bad("the completely written file is not accepted (or does not decrypt to the plaintext)");
      final_ok = true;
      continue;
    }
    if (q.vret || q.dret)
    {
      Verdict f = bad(std::string(q.vret ? "verification" : "decryption") + " accepts a partial output file: " + labels[i] + ", " + std::to_string(states[i].size()) + " of " + std::to_string(final_img.size()) + " bytes on disk");
      Case rc = c;
      rc.seti("only_state", (long long)i);
      f.replay_text = rc.text();
      return f;
    }
  }
  if (!final_ok)
    return bad("the completely written file was not evaluated");
  v.nontrivial = !v.more_distinct.empty();
  return v;
}

static Case gen_c13()
{
  Case c;
  GenOpts o;
  o.maxT = 4;
  o.chunks = {16, 32, 64};
  o.max_len = 600;
  o.schedules = true;
  o.two_scheds = false;
  gen_enc(c, o);
  c.seti("outbuf", g::range(0, 3));
  return c;
}

static void fixed_c13(Ctx &ctx)
{
  const Prop *p = find_prop("C13");
  uint64_t i = 0;
  for (int cm = 0; cm < 5; cm++)
    for (int hm = 0; hm < 3; hm++)
      for (int ob = 0; ob < 3; ob++)
      {
        if (!mine(ctx, i++))
          continue;
        Case c;
        c.seti("plen", (cm == 0) ? 0 : 30 * cm + hm);
        c.set("pseed", std::to_string(cm * 10 + hm));
        c.seti("pstyle", 0);
        c.setb("key", expand(cm * 3 + hm + 11, 16, 0));
        c.setb("seed", bytes{'c', 'p'});
        c.seti("cmode", cm);
        c.seti("hmode", hm);
        c.seti("T", 1 + (cm + ob) % 3);
        c.seti("chunk", 32);
        c.seti("outbuf", ob);
        c.set("sched", "k0");
        eval_fixed(*p, ctx, c);
      }
  ctx.stats.info["crash_points"] = "every byte prefix of the stream of writes reaching the output below stdio, per case (exhaustive per case)";
}

static PropReg reg({"C13", gen_c13, run_c13, fixed_c13, 3200, 120000, 100, "sched"});
