// C02 encrypted file equals the documented format built from standard primitives.
#include "../pipe.h"
#include "../prodrun.h"

static Verdict run_c02(const Case &c)
{
  if (c.get("kind") == "prod")
    return run_prod(c, true); // the production binary (16 MiB chunks): what it writes is parsed by the format specification
  EncCase e = enc_from(c);
  Verdict v;
  uint64_t nch = nchunks_of(padded(e.P.size()), e.chunk);
  v.nontrivial = (nch >= 2 && e.T >= 2) || c.geti("single_matrix");
  v.classes.push_back("cmode" + std::to_string(e.cmode));
  v.classes.push_back("hmode" + std::to_string(e.hmode));
  v.classes.push_back(nch >= 2 && e.T >= 2 ? "striped(>=2 chunks,T>=2)" : "not_striped");
  if (nch > (uint64_t)e.T)
    v.classes.push_back("stream_with_2+_chunks");
  if (e.seed.size() % 64 >= 56)
    v.classes.push_back("seed_len_mod64>=56");
  if ((64 + 20 * e.T + padded(e.P.size())) % 64 >= 56)
    v.classes.push_back("hmac_inner_len_mod64>=56");
  {
    Case id;
    id.seti("plen", (long long)e.P.size());
    id.seti("chunk", e.chunk);
    id.seti("T", e.T);
    id.seti("cm", e.cmode);
    id.seti("hm", e.hmode);
    id.set("h", std::to_string(fnv64(hex(e.P) + hex(e.key) + hex(e.seed))));
    v.distinct = fnv64(id.text());
  }
  auto bad = [&](const std::string &m) {
    Verdict f = Verdict::fail(m);
    f.nontrivial = v.nontrivial;
    f.classes = v.classes;
    f.distinct = v.distinct;
    return f;
  };
  ChildResult r = run_in_child([&]() -> bytes {
    Ser s;
    // both encryptions get the SAME seed buffer, as a caller would that collects its random text once and encrypts
    // several files with it
    bytes sb = e.seed;
    sb.push_back(0);
    wapi::PipeCfg p1 = pcfg(e, e.s1), p2 = pcfg(e, e.s2);
    p1.seed_buf = p2.seed_buf = sb.data();
    wapi::OpOut a = wapi::encrypt(e.P, e.key, e.seed, e.cmode, e.hmode, p1);
    s.blob(a.ser());
    wapi::OpOut b = wapi::encrypt(e.P, e.key, e.seed, e.cmode, e.hmode, p2);
    s.blob(b.ser());
    return s.b;
  });
  if (r.status == CH_TIMEOUT)
  {
    v.classes.push_back("watchdog_inconclusive");
    return v;
  }
  if (r.status == CH_EXIT && r.code == 97 && !wapi::has_scheduler())
  {
    // real threads under ThreadSanitizer: the file is a function of (plaintext, key, modes, seed, T) only if the worker
    // streams do not share data that one of them writes
    size_t p1 = r.detail.find("WARNING:");
    std::string first = r.detail.substr(p1 == std::string::npos ? 0 : p1, 700);
    for (auto &ch : first)
      if (ch == '\n')
        ch = '|';
    if (r.detail.find("/kernel/") == std::string::npos)
    {
      Verdict f = Verdict::fail("harness: ThreadSanitizer report without a frame in wencry: " + first);
      f.infra = true;
      return f;
    }
    return bad("ThreadSanitizer: while the file is being written, pipeline threads race on shared data inside wencry - what the file contains then depends on timing, not only on (plaintext, key, modes, seed, T): " + first);
  }
  if (r.status != CH_OK)
    return bad("encryption did not complete: " + r.describe());
  De d(r.payload);
  wapi::OpOut a = wapi::OpOut::de(d.blob());
  wapi::OpOut b = wapi::OpOut::de(d.blob());
  if (d.bad)
    return bad("harness: truncated child payload");
  if (!a.ret || !b.ret)
    return bad("execute_encrypt reported failure");
  if (!a.in_same || a.in_writes || !b.in_same || b.in_writes)
    return bad("encryption modified its input file");
  bytes want = ref::encrypt_file(e.P, fparams(e));
  size_t n = e.P.size();
  size_t want_len = 48 + 20 * (size_t)e.T + 16 * (n / 16 + 1);
  if (want.size() != want_len)
    return bad("harness: reference length disagrees with the formula");
  int hl = ref::Hash::hlen(e.hmode);
  if (a.out.size() != want_len)
    return bad("file length " + std::to_string(a.out.size()) + " != 48+20T+16(floor(n/16)+1) = " + std::to_string(want_len));
  if (a.out != want)
    return bad("file differs from the format specification in: " + ref::first_diff_field(a.out, want, e.T, e.chunk, hl));
  if (b.out != a.out)
    return bad("encrypting the same input twice (two schedules) gave different files: " + ref::first_diff_field(b.out, a.out, e.T, e.chunk, hl));
  // statistic only: body blocks equal to the plaintext block at the same offset
  size_t body = 48 + 20 * (size_t)e.T, same = 0;
  for (size_t o = 0; o + 16 <= n; o += 16)
    if (memcmp(a.out.data() + body + o, e.P.data() + o, 16) == 0)
      same++;
  if (same)
    v.classes.push_back("body_block_equal_to_plaintext_block");
  return v;
}

static Case gen_c02()
{
  Case c;
  GenOpts o;
  o.max_len = 12288;
  gen_enc(c, o);
  return c;
}

static void fixed_c02(Ctx &ctx)
{
  // every (cmode, hmode) x T 1..16 with a single chunk and with T+1 chunks, canonical schedule
  const Prop *p = find_prop("C02");
  uint64_t i = 0;
  if (ctx.mode == "prod")
  {
    // the chunk size is part of the format (it decides which stream enciphers which bytes) and in the hooked
    // builds it is a run-time value: only the production binary shows what constant the program really uses
    struct
    {
      int k, d, cm, hm;
      bool quick;
    } cases[] = {{1, 1, 1, 0, true}, {2, 0, 2, 1, true}, {1, -16, 3, 2, false}, {3, -1, 4, 0, false}, {5, 1, 1, 2, false}};
    for (auto &pc : cases)
    {
      if (!pc.quick && !ctx.thorough())
        continue;
      if (!mine(ctx, i++))
        continue;
      Case c;
      c.set("kind", "prod");
      c.seti("k", pc.k);
      c.seti("d", pc.d);
      c.seti("cmode", pc.cm);
      c.seti("hmode", pc.hm);
      eval_fixed(*p, ctx, c);
    }
    ctx.stats.info["production_size_runs"] = "CLI binary with the guard off, 1-2 (thorough: up to 5) chunks of 16 MiB, T = 4; the written file must parse under the format specification";
    return;
  }
  // seeds found by search: the first IV (SHA-1 of the seed) ends in ..56ff / ..2cfff7 / ..baffffec / 97ffffff11,
  // so the CTR counter of a stream carries through 1 / 2 / 3 / 4 bytes within the first 256 blocks
  for (const char *sd : {"wv-seed-33", "wv-seed-897", "wv-seed-153636", "wv-ctr-86421"})
    for (int T : {1, 2})
      for (int cm : {2, 1, 4})
      {
        if (!mine(ctx, i++))
          continue;
        Case c;
        int chunk = 256;
        c.seti("plen", T * 4096 - 7);
        c.set("pseed", std::to_string(i * 31 + 5));
        c.seti("pstyle", 0);
        c.setb("key", expand(i + 1234, 16, 0));
        c.setb("seed", bytes(sd, sd + strlen(sd)));
        c.seti("cmode", cm);
        c.seti("hmode", (int)(i % 3));
        c.seti("T", T);
        c.seti("chunk", chunk);
        c.set("sched", "k0");
        c.set("sched2", "k0");
        c.seti("single_matrix", 1);
        eval_fixed(*p, ctx, c);
      }
  for (int cm = 0; cm < 5; cm++)
    for (int hm = 0; hm < 3; hm++)
      for (int T = 1; T <= 16; T++)
        for (int multi = 0; multi < 2; multi++)
        {
          if (!mine(ctx, i++))
            continue;
          Case c;
          int chunk = 32;
          c.seti("plen", multi ? (T + 1) * chunk + 5 : 20);
          c.set("pseed", std::to_string(i * 104729));
          c.seti("pstyle", 0);
          c.setb("key", expand(i + 99, 16, 0));
          c.setb("seed", expand(i, (size_t)(i % 70), 2));
          c.seti("cmode", cm);
          c.seti("hmode", hm);
          c.seti("T", T);
          c.seti("chunk", chunk);
          c.set("sched", "k0");
          c.set("sched2", "k0");
          c.seti("single_matrix", 1);
          eval_fixed(*p, ctx, c);
        }
}

static PropReg reg({"C02", gen_c02, run_c02, fixed_c02, 24000, 800000, 100, "sched"});
