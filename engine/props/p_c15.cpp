// C15 operations repeated in one process behave as in a fresh process.
// A history of operations runs in ONE forked child; every step is also run ALONE in a fresh child
// (forked from the pristine parent) on the same input bytes; results and output bytes must agree.
#include "../pipe.h"
#include <unistd.h>
#include <fcntl.h>
#include <sys/stat.h>
#include <dirent.h>
#include <errno.h>
#include <sys/resource.h>

struct Op
{
  std::string kind;  // enc dec ver
  std::string level; // api cli
  int src = -1;      // -1 fresh plaintext, k >= 0: output of step k
  int tamper = 0;    // 0 none, 1 body bit, 2 truncate, 3 tag bit, 4 append
  int wrongkey = 0; // decrypt / verify with the key of another key id
  int keyid = 0;    // which of the history's keys this step uses (keys share prefixes of different lengths)
  int seedid = 0;   // which IV seed an encryption uses
  int cmode = 1, hmode = 0, T = 2, chunk = 32;
  uint64_t plen = 0, pseed = 0;
  std::string sched = "k0";
  std::string text() const
  {
    return kind + "," + level + "," + std::to_string(src) + "," + std::to_string(tamper) + "," + std::to_string(wrongkey) + "," + std::to_string(cmode) + "," + std::to_string(hmode) + "," + std::to_string(T) + "," + std::to_string(chunk) + "," + std::to_string(plen) + "," + std::to_string(pseed) + "," + std::to_string(keyid) + "," + std::to_string(seedid) + "," + sched;
  }
  static Op parse(const std::string &s)
  {
    Op o;
    std::vector<std::string> p;
    size_t i = 0;
    while (i <= s.size() && p.size() < 13)
    {
      size_t e = s.find(',', i);
      if (e == std::string::npos)
        e = s.size();
      p.push_back(s.substr(i, e - i));
      i = e + 1;
    }
    if (i <= s.size())
      p.push_back(s.substr(i));
    if (p.size() >= 14)
    {
      o.kind = p[0];
      o.level = p[1];
      o.src = atoi(p[2].c_str());
      o.tamper = atoi(p[3].c_str());
      o.wrongkey = atoi(p[4].c_str());
      o.cmode = atoi(p[5].c_str());
      o.hmode = atoi(p[6].c_str());
      o.T = atoi(p[7].c_str());
      o.chunk = atoi(p[8].c_str());
      o.plen = strtoull(p[9].c_str(), NULL, 10);
      o.pseed = strtoull(p[10].c_str(), NULL, 10);
      o.keyid = atoi(p[11].c_str());
      o.seedid = atoi(p[12].c_str());
      o.sched = p[13];
    }
    return o;
  }
};

struct StepRes
{
  int ret = -100; // API: 0/1 ; CLI: exit status of main()
  bytes out;
};

static void rm_rf15(const std::string &d)
{
  DIR *dir = opendir(d.c_str());
  if (dir)
  {
    struct dirent *e;
    while ((e = readdir(dir)))
    {
      std::string n = e->d_name;
      if (n == "." || n == "..")
        continue;
      unlink((d + "/" + n).c_str());
    }
    closedir(dir);
  }
  rmdir(d.c_str());
}

static bytes tamper(bytes f, int how)
{
  if (f.empty())
    return f;
  switch (how)
  {
  case 1:
    f[f.size() - 1 - (f.size() % 13 < f.size() ? f.size() % 13 : 0)] ^= 0x04;
    break;
  case 2:
    f.resize(f.size() - 1);
    break;
  case 3:
    if (f.size() > 12)
      f[12] ^= 1;
    break;
  case 4:
    f.insert(f.end(), 16, 0x61);
    break;
  }
  return f;
}

static bytes step_input(const Op &op, const std::vector<StepRes> &prev)
{
  bytes in;
  if (op.src >= 0 && op.src < (int)prev.size())
    in = prev[op.src].out;
  else
    in = expand(op.pseed, (size_t)op.plen, 0);
  return tamper(in, op.tamper);
}

// the keys of a history are related on purpose: they agree in the first 15 / 8 / 3 bytes or not at all,
// so that anything remembered per key (prefix) from an earlier step would show
static bytes key_of(const bytes &key, int id)
{
  bytes k = key;
  switch (id & 3)
  {
  case 1:
    k[15] ^= 0x01;
    break;
  case 2:
    k[8] ^= 0x80;
    break;
  case 3:
    k[3] ^= 0x40;
    break;
  }
  return k;
}
static bytes the_key(const Op &op, const bytes &key)
{
  return key_of(key, op.wrongkey ? op.keyid + 1 + (op.wrongkey & 1) : op.keyid);
}

// runs inside a child; `dir` is the scratch directory of this child
static StepRes run_step(const Op &op, const bytes &input, const bytes &key, const std::string &dir, int idx)
{
  StepRes r;
  // the caller keeps ONE buffer per key for the whole process (a library user does not copy its key for every call):
  // all steps of a history that use the same key are handed the same 16 bytes of memory. A fresh process starts with
  // fresh buffers.
  static bytes slots[4];
  int slot = (op.wrongkey ? op.keyid + 1 + (op.wrongkey & 1) : op.keyid) & 3;
  if (slots[slot].empty())
    slots[slot] = the_key(op, key);
  bytes &k = slots[slot];
  wapi::set_sizes(op.chunk, 4);
  wapi::set_fake_time(1700000000);
  wapi::PipeCfg pc;
  pc.T = op.T;
  pc.chunk = op.chunk;
  pc.sched = wapi::SchedSpec::parse(op.sched);
  pc.key_buf = k.data();
  if (op.level == "api")
  {
    pc.null_input = op.tamper == 9; // "the input file could not be opened": the operation gets a NULL stream and refuses
    // a machine short of memory refuses one of the two big buffers of the operation (16 MiB per worker / 32 MiB in the
    // production build): the chunk-buffer array (10) or the hash file buffer (11). The operation ends in std::bad_alloc
    // (result -7) - in the history and in the fresh process alike; what matters is the steps that follow.
    if (op.tamper == 10 || op.tamper == 11)
      pc.fail_big = op.tamper - 9;
    wapi::OpOut o;
    if (op.kind == "enc")
      o = wapi::encrypt(input, k, bytes{'h', 'i', 's', 't', (uint8_t)('0' + (op.seedid & 3))}, op.cmode, op.hmode, pc);
    else if (op.kind == "dec")
      o = wapi::decrypt(input, k, pc);
    else
      o = wapi::verify(input, k, pc, false);
    r.ret = o.threw ? -7 : o.ret ? 1 : 0;
    r.out = o.out;
    return r;
  }
  std::string in = dir + "/in" + std::to_string(idx), out = dir + "/out" + std::to_string(idx);
  write_file(in, std::string(input.begin(), input.end()));
  std::string ks = ref::b64_encode(k.data(), 16);
  // a command line that is refused while its options are parsed (tamper 12: the input file does not exist, 13: the key
  // text is not a key, 14: two modes): whatever the parser leaves behind must not reach the next command line
  if (op.tamper == 12)
    in = dir + "/no-such-input-" + std::to_string(idx);
  else if (op.tamper == 13)
    ks = "not-a-base64-key";
  std::vector<std::string> av = {"wencry"};
  if (op.kind == "enc")
    av.insert(av.end(), {"-e", "-i", in, "-o", out, "-k", ks, "--cmode", std::to_string(op.cmode), "--hmode", std::to_string(op.hmode), "-n"});
  else if (op.kind == "dec")
    av.insert(av.end(), {"-d", "-i", in, "-o", out, "-k", ks, "-n"});
  else
    av.insert(av.end(), {"-v", "-i", in, "-k", ks, "-n"});
  if (op.tamper == 14)
    av.insert(av.begin() + 1, "-e"); // a second mode flag in front
  r.ret = wapi::cli_run(av, pc, input.size() / 16 + 2, NULL);
  if (getenv("WV_DEBUG_FD"))
  {
    std::string l = "FD after step " + std::to_string(idx) + ":";
    if (DIR *d = opendir("/proc/self/fd"))
    {
      while (struct dirent *e = readdir(d))
        if (e->d_name[0] >= '0' && e->d_name[0] <= '9')
        {
          char tgt[256];
          std::string pth = std::string("/proc/self/fd/") + e->d_name;
          ssize_t k = readlink(pth.c_str(), tgt, sizeof tgt - 1);
          tgt[k > 0 ? k : 0] = 0;
          l += std::string(" ") + e->d_name + "=" + tgt;
        }
      closedir(d);
    }
    fprintf(stderr, "%s\n", l.c_str());
  }
  std::string of = read_file(out);
  r.out.assign(of.begin(), of.end());
  unlink(in.c_str());
  unlink(out.c_str());
  return r;
}

static std::string scratch()
{
  const char *sroot = getenv("VERIF_SCRATCH");
  std::string root = sroot ? sroot : "/verif/.scratch";
  mkdir(root.c_str(), 0755);
  return root;
}

static Verdict run_c15(const Case &c)
{
  Verdict v;
  int n = (int)c.geti("n");
  bytes key = c.getb("key");
  key.resize(16);
  std::vector<Op> ops;
  for (int i = 0; i < n; i++)
    ops.push_back(Op::parse(c.get("op" + std::to_string(i))));
  static uint64_t seq = 0;
  std::string base = scratch() + "/c15-" + std::to_string(getpid()) + "-" + std::to_string(seq++);
  // only under the deterministic scheduler (one thread runs at a time): UBSan's vptr check probes memory through a
  // pipe() on every type-cache miss, so T real worker threads may need 2T descriptors at once and, when they do
  // not get them, report bogus type errors (false alarm 11.6)
  bool tightfd = c.geti("tightfd") != 0 && wapi::has_scheduler();
  auto quiet = [tightfd] {
    int dn = open("/dev/null", O_WRONLY);
    if (dn >= 0)
    {
      fflush(stdout);
      dup2(dn, 1);
      close(dn);
    }
    if (tightfd)
    {
      // the same descriptor limit for the history and for every fresh process: room for eight descriptors beyond
      // those already open (an operation needs input + output, the sanitizer a pipe, one transient). A descriptor that an
      // operation fails to give back then changes the result of a later operation within a short history.
      // RLIMIT_NOFILE bounds descriptor NUMBERS: choose the smallest limit that leaves exactly eight free
      // numbers below it, whatever gaps the inherited descriptors have
      std::vector<bool> used(4096, false);
      if (DIR *d = opendir("/proc/self/fd"))
      {
        int self = dirfd(d);
        while (struct dirent *e = readdir(d))
        {
          int fd = atoi(e->d_name);
          if (e->d_name[0] >= '0' && e->d_name[0] <= '9' && fd != self && fd >= 0 && fd < 4096)
            used[(size_t)fd] = true;
        }
        closedir(d);
      }
      int limit = 0, freeslots = 0;
      while (limit < 4096 && freeslots < 8)
        if (!used[(size_t)limit++])
          freeslots++;
      for (int fd = limit; fd < 4096; fd++)
        if (used[(size_t)fd])
          limit = fd + 1; // never below a descriptor that is already open (keeps the limit legal for them)
      struct rlimit rl;
      if (getrlimit(RLIMIT_NOFILE, &rl) == 0)
      {
        rl.rlim_cur = (rlim_t)limit;
        setrlimit(RLIMIT_NOFILE, &rl);
      }
      if (getenv("WV_DEBUG_FD"))
        fprintf(stderr, "FD limit=%d\n", limit);
    }
  };
  if (tightfd)
    v.classes.push_back("descriptor_limit_tight");
  // ---- the whole history in one process ----
  ChildResult ra = run_in_child([&]() -> bytes {
    quiet();
    std::string dir = base + "-A";
    mkdir(dir.c_str(), 0755);
    std::vector<StepRes> res;
    Ser s;
    errno = 0; // a fresh process starts with errno 0; whatever the steps leave behind is part of the history
    for (int i = 0; i < n; i++)
    {
      bytes in = step_input(ops[i], res);
      StepRes r = run_step(ops[i], in, key, dir, i);
      res.push_back(r);
      s.u32((uint32_t)r.ret);
      s.blob(r.out);
      s.blob(in);
    }
    rm_rf15(dir);
    return s.b;
  }, 40);
  rm_rf15(base + "-A");
  int pipeline_runs = 0, fails_before_success = 0;
  bool seen_fail = false;
  auto bad = [&](const std::string &m) {
    Verdict f = Verdict::fail(m);
    f.nontrivial = true;
    f.classes = v.classes;
    return f;
  };
  v.classes.push_back("history_len=" + std::string(n <= 3 ? "2-3" : n <= 6 ? "4-6" : "7-12"));
  if (ra.status == CH_TIMEOUT)
    return v;
  if (ra.status != CH_OK)
  {
    // find the first step that does not complete inside the history, then run that step alone on the
    // same input: if it does not complete alone either, this is not a history effect
    auto run_prefix = [&](int k, std::vector<StepRes> &res, std::vector<bytes> &ins) -> ChildResult {
      ChildResult r = run_in_child([&]() -> bytes {
        quiet();
        std::string dir = base + "-P";
        mkdir(dir.c_str(), 0755);
        std::vector<StepRes> rr;
        Ser s;
        errno = 0;
        for (int i = 0; i < k; i++)
        {
          bytes in = step_input(ops[i], rr);
          StepRes x = run_step(ops[i], in, key, dir, i);
          rr.push_back(x);
          s.u32((uint32_t)x.ret);
          s.blob(x.out);
          s.blob(in);
        }
        rm_rf15(dir);
        return s.b;
      }, 40);
      rm_rf15(base + "-P");
      if (r.status == CH_OK)
      {
        De dd(r.payload);
        res.assign(k, StepRes());
        ins.assign(k, bytes());
        for (int i = 0; i < k; i++)
        {
          res[i].ret = (int)dd.u32();
          res[i].out = dd.blob();
          ins[i] = dd.blob();
        }
      }
      return r;
    };
    std::vector<StepRes> okres;
    std::vector<bytes> okins;
    int k = 1;
    ChildResult rk;
    for (; k <= n; k++)
    {
      std::vector<StepRes> r2;
      std::vector<bytes> i2;
      rk = run_prefix(k, r2, i2);
      if (rk.status != CH_OK)
        break;
      okres = r2;
      okins = i2;
    }
    if (k > n)
    {
      v.classes.push_back("nonreproducible_abnormal_history");
      return v;
    }
    bytes in = step_input(ops[k - 1], okres);
    ChildResult alone = run_in_child([&]() -> bytes {
      quiet();
      std::string dir = base + "-B";
      mkdir(dir.c_str(), 0755);
      errno = 0;
      StepRes r = run_step(ops[k - 1], in, key, dir, k - 1);
      rm_rf15(dir);
      Ser s;
      s.u32((uint32_t)r.ret);
      return s.b;
    }, 60);
    rm_rf15(base + "-B");
    if (alone.status != CH_OK)
    {
      v.classes.push_back("step_abnormal_also_alone");
      return v;
    }
    return bad("step " + std::to_string(k - 1) + " (" + ops[k - 1].kind + "/" + ops[k - 1].level + ") does not complete inside the history (" + rk.describe() + ") but completes in a fresh process");
  }
  De d(ra.payload);
  std::vector<StepRes> A(n);
  std::vector<bytes> inputs(n);
  for (int i = 0; i < n; i++)
  {
    A[i].ret = (int)d.u32();
    A[i].out = d.blob();
    inputs[i] = d.blob();
  }
  if (d.bad)
    return bad("harness: truncated history payload");
  // ---- every step alone in a fresh process ----
  for (int i = 0; i < n; i++)
  {
    ChildResult rb = run_in_child([&]() -> bytes {
      quiet();
      std::string dir = base + "-B";
      mkdir(dir.c_str(), 0755);
      errno = 0; // the ambient state of a fresh process
      StepRes r = run_step(ops[i], inputs[i], key, dir, i);
      rm_rf15(dir);
      Ser s;
      s.u32((uint32_t)r.ret);
      s.blob(r.out);
      return s.b;
    }, 30);
    rm_rf15(base + "-B");
    if (rb.status == CH_TIMEOUT)
      return v;
    std::string what = "step " + std::to_string(i) + " of " + std::to_string(n) + " (" + ops[i].kind + "/" + ops[i].level + ", T=" + std::to_string(ops[i].T) + ", chunk " + std::to_string(ops[i].chunk) + ", " + std::to_string(inputs[i].size()) + "-byte input)";
    if (rb.status != CH_OK)
    {
      // the step fails on its own as well: not a history effect (other properties judge single operations)
      v.classes.push_back("step_abnormal_also_alone");
      continue;
    }
    De db(rb.payload);
    int bret = (int)db.u32();
    bytes bout = db.blob();
    bool success = ops[i].level == "api" ? bret == 1 : bret == 0;
    bool ran_pipeline = (ops[i].kind == "enc" && success) || (ops[i].kind == "dec" && success);
    if (ran_pipeline)
      pipeline_runs++;
    if (!success)
      seen_fail = true;
    else if (seen_fail)
      fails_before_success++;
    if (A[i].ret != bret)
      return bad(what + " returned " + std::to_string(A[i].ret) + " inside the history but " + std::to_string(bret) + " in a fresh process");
    if (A[i].out != bout)
    {
      size_t k = 0;
      while (k < A[i].out.size() && k < bout.size() && A[i].out[k] == bout[k])
        k++;
      return bad(what + " produced different output inside the history than in a fresh process (first difference at byte " + std::to_string(k) + ", lengths " + std::to_string(A[i].out.size()) + " / " + std::to_string(bout.size()) + ")");
    }
  }
  v.nontrivial = pipeline_runs >= 2 && fails_before_success >= 1;
  if (pipeline_runs >= 2)
    v.classes.push_back("pipeline_runs>=2");
  for (int i = 0; i + 1 < n; i++)
    if (A[i].ret == -7)
    {
      v.classes.push_back("steps_after_a_refused_big_allocation");
      break;
    }
  if (fails_before_success)
    v.classes.push_back("failing_op_before_succeeding_op");
  bool cli = false, api = false;
  for (auto &o : ops)
    (o.level == "cli" ? cli : api) = true;
  if (cli && api)
    v.classes.push_back("mixed_api_and_cli");
  return v;
}

static Case gen_c15()
{
  Case c;
  int n = (int)g::range(2, 13);
  if (g::coin(60))
    n = (int)g::range(2, 7);
  c.seti("n", n);
  if (g::coin(30))
    c.seti("tightfd", 1);
  c.setb("key", g::raw(16));
  std::vector<std::string> kinds; // what each step produces: "file" (enc ok), "plain", "none"
  for (int i = 0; i < n; i++)
  {
    Op o;
    long k = g::range(0, 100);
    o.level = g::coin(35) ? "cli" : "api";
    // sources: outputs of earlier encrypt steps for dec/ver
    std::vector<int> encs;
    for (int j = 0; j < i; j++)
      if (kinds[j] == "file")
        encs.push_back(j);
    if (encs.empty() || k < 40)
      o.kind = "enc";
    else
      o.kind = k < 80 ? "dec" : "ver";
    o.cmode = (int)g::range(0, 5);
    o.hmode = (int)g::range(0, 3);
    o.T = o.level == "cli" ? 4 : (int)(g::coin(80) ? g::range(1, 5) : g::range(1, 17));
    o.chunk = (int)g::oneof<long>({16, 32, 48, 64});
    if (o.kind == "enc")
    {
      o.src = -1;
      long q = g::range(0, 2 * o.T + 2);
      long r = g::coin(50) ? g::oneof<long>({0, 1, 15, o.chunk - 17, o.chunk - 16, o.chunk - 1}) : g::range(0, o.chunk);
      if (r < 0)
        r = 0;
      o.plen = (uint64_t)(q * o.chunk + r % o.chunk);
      o.pseed = g::u64() % 1000000;
      o.keyid = (int)g::range(0, 4);
      o.seedid = (int)g::range(0, 4);
      if (o.level == "api" && o.T >= 2 && wapi::has_scheduler() && g::coin(7))
        o.tamper = g::coin(70) ? 10 : 11; // a big buffer is refused: this encryption ends in std::bad_alloc
      kinds.push_back(o.tamper ? "none" : "file");
    }
    else
    {
      // decrypt / verify with the thread count and chunk size of the encryption (the documented domain);
      // the CLI always uses 4 workers, so CLI steps read only files written by 4 workers
      o.src = encs[(size_t)g::range(0, (long)encs.size())];
      int srcT = (int)c.geti("T" + std::to_string(o.src), 4);
      if (o.level == "cli" && srcT != 4)
        o.level = "api";
      o.T = srcT;
      o.chunk = (int)c.geti("chunk" + std::to_string(o.src), o.chunk);
      o.tamper = g::coin(30) ? (int)g::range(1, 5) : 0;
      if (o.level == "cli" && g::coin(14))
        o.tamper = (int)g::range(12, 15); // refused while the options are parsed (no such input / bad key text / two modes)
      else if (o.level == "api" && g::coin(8))
        o.tamper = 9; // NULL input stream
      else if (o.level == "api" && o.T >= 2 && wapi::has_scheduler() && g::coin(7))
        o.tamper = (o.kind == "dec" && g::coin(70)) ? 10 : 11; // a big buffer is refused (std::bad_alloc)
      o.wrongkey = g::coin(20) ? (int)g::range(1, 3) : 0;
      o.keyid = (int)c.geti("keyid" + std::to_string(o.src), 0);
      kinds.push_back(o.kind == "dec" ? "plain" : "none");
    }
    if (o.kind == "enc" && o.level == "cli")
      o.T = 4;
    c.seti("T" + std::to_string(i), o.T);
    c.seti("chunk" + std::to_string(i), o.chunk);
    c.seti("keyid" + std::to_string(i), o.keyid);
    o.sched = gen_sched(o.T, (size_t)(o.plen / 16 + 4)).text();
    c.set("op" + std::to_string(i), o.text());
  }
  return c;
}

static void fixed_c15(Ctx &ctx)
{
  const Prop *p = find_prop("C15");
  uint64_t i = 0;
  // hand-built histories: success after failure, changing T and chunk, API and CLI mixed
  const char *hs[][8] = {
      {"enc,api,-1,0,0,1,0,2,32,100,1,0,0,k0", "dec,api,0,0,1,1,0,2,32,0,0,0,0,k0", "dec,api,0,0,0,1,0,2,32,0,0,0,0,k0", "ver,api,0,3,0,1,0,2,32,0,0,0,0,k0", "enc,api,-1,0,0,2,2,16,16,63,2,1,1,k0", "dec,api,4,0,0,2,2,16,16,0,0,1,0,k0", NULL},
      {"enc,cli,-1,0,0,3,1,4,64,255,3,0,0,k0", "ver,cli,0,0,0,3,1,4,64,0,0,0,0,k0", "dec,cli,0,1,0,3,1,4,64,0,0,0,0,k0", "dec,cli,0,0,0,3,1,4,64,0,0,0,0,k0", "enc,api,-1,0,0,4,0,3,48,96,4,2,1,k0", "dec,api,4,0,0,4,0,3,48,0,0,2,0,k0", NULL},
      {"enc,api,-1,0,0,0,0,1,16,0,5,0,0,k0", "dec,api,0,0,0,0,0,1,16,0,0,0,0,k0", "enc,api,-1,0,0,1,1,5,16,79,6,1,2,k0", "dec,api,2,2,0,1,1,5,16,0,0,1,0,k0", "dec,api,2,0,0,1,1,5,16,0,0,1,0,k0", "enc,cli,-1,0,0,2,2,4,32,31,7,0,0,k0", "dec,cli,5,0,0,2,2,4,32,0,0,0,0,k0", NULL},
      // command lines refused during option parsing, each followed by command lines that must not notice
      {"enc,cli,-1,0,0,2,2,4,32,70,8,0,0,k0", "ver,cli,0,12,0,2,2,4,32,0,0,0,0,k0", "ver,cli,0,0,0,2,2,4,32,0,0,0,0,k0", "dec,cli,0,13,0,2,2,4,32,0,0,0,0,k0", "enc,cli,-1,0,0,3,1,4,32,50,9,0,0,k0", "dec,cli,0,14,0,2,2,4,32,0,0,0,0,k0", "dec,cli,0,0,0,2,2,4,32,0,0,0,0,k0", NULL},
      // a refused big buffer (std::bad_alloc) in the middle of a history: the steps behind it must not notice
      {"enc,api,-1,10,0,1,0,3,32,100,1,0,0,k0", "enc,api,-1,0,0,1,0,2,32,100,1,0,0,k0", "dec,api,1,0,0,1,0,2,32,0,0,0,0,k0", "dec,api,1,10,0,1,0,2,32,0,0,0,0,k0", "dec,api,1,11,0,1,0,2,32,0,0,0,0,k0", "dec,api,1,0,0,1,0,2,32,0,0,0,0,k0", "enc,api,-1,11,0,2,2,4,16,70,2,1,1,k0", NULL},
  };
  for (auto &h : hs)
  {
    if (!mine(ctx, i++))
      continue;
    Case c;
    int n = 0;
    while (h[n])
    {
      c.set("op" + std::to_string(n), h[n]);
      n++;
    }
    c.seti("n", n);
    c.setb("key", expand(i + 40, 16, 0));
    eval_fixed(*p, ctx, c);
  }
}

static PropReg reg({"C15", gen_c15, run_c15, fixed_c15, 6000, 200000, 100, "sched"});
