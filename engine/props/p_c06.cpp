// C06 a wrong key is always rejected and yields no plaintext.
#include "../tamper.h"
#include "../spawn.h"
#include <sys/stat.h>

// The program a user runs: the key travels as base64 text through the option parser and the decoder before it
// reaches the kernel. A file is written by `Wencry -e -k <key>`; `-v` and `-d` with the text of every one-bit
// neighbour of the key (and of a few other wrong keys) must exit non-zero and leave no plaintext behind.
static Verdict run_c06_cli(const Case &c)
{
  Verdict v;
  const char *b1 = getenv("WENCRY_CLI");
  if (!b1)
  {
    Verdict f = Verdict::fail("WENCRY_CLI not set");
    f.infra = true;
    return f;
  }
  const char *sroot = getenv("VERIF_SCRATCH");
  std::string root = sroot ? sroot : "/verif/.scratch";
  mkdir(root.c_str(), 0755);
  static uint64_t seq = 0;
  std::string dir = root + "/c06-" + std::to_string(getpid()) + "-" + std::to_string(seq++);
  mkdir(dir.c_str(), 0755);
  struct Cleaner
  {
    std::string d;
    ~Cleaner() { rm_rf(d); }
  } cleaner{dir};
  int cm = (int)c.geti("cmode", 1), hm = (int)c.geti("hmode", 0);
  bytes P = expand((uint64_t)strtoull(c.get("pseed", "1").c_str(), NULL, 10), (size_t)c.geti("plen", 55), 0);
  bytes key = c.getb("key");
  key.resize(16);
  write_file(dir + "/in.bin", std::string(P.begin(), P.end()));
  std::string ks = ref::b64_encode(key.data(), 16);
  v.nontrivial = true;
  v.classes.push_back("kind=cli");
  v.classes.push_back("hmode" + std::to_string(hm));
  auto bad = [&](const std::string &m) {
    Verdict f = Verdict::fail("production binary, cmode " + std::to_string(cm) + ", hmode " + std::to_string(hm) + ", file written with -k " + ks + ": " + m);
    f.nontrivial = true;
    f.classes = v.classes;
    return f;
  };
  RunRes r1 = spawn(b1, {"-e", "-i", "in.bin", "-o", "f.wenc", "-k", ks, "--cmode", std::to_string(cm), "--hmode", std::to_string(hm), "-n"}, dir);
  if (r1.timed_out || r1.signaled || r1.code != 0)
  {
    v.classes.push_back("cli_encryption_failed(not_judged_here)");
    v.nontrivial = false;
    return v;
  }
  {
    // what was written must be a file under `key` (otherwise "wrong key" means something else than we think)
    std::string of = read_file(dir + "/f.wenc");
    ref::Parsed pr = ref::parse_file(bytes(of.begin(), of.end()), key, 4, 1u << 24);
    if (pr.status != 0)
    {
      v.classes.push_back("cli_file_not_authentic_under_the_given_key(not_judged_here)");
      v.nontrivial = false;
      return v;
    }
  }
  std::vector<std::pair<std::string, bytes>> wrong;
  for (int bit = 0; bit < 128; bit++)
  {
    bytes k = key;
    k[bit / 8] ^= (uint8_t)(1 << (bit % 8));
    wrong.push_back({"key bit " + std::to_string(bit) + " flipped", k});
  }
  {
    bytes k = key;
    k[15] ^= 3;
    wrong.push_back({"the two lowest bits of the last key byte flipped", k});
    k = key;
    std::reverse(k.begin(), k.end());
    if (k != key)
      wrong.push_back({"key bytes reversed", k});
    wrong.push_back({"all-zero key", bytes(16, 0)});
    if (key == bytes(16, 0))
      wrong.pop_back();
  }
  size_t n = 0;
  for (auto &w : wrong)
  {
    std::string ws = ref::b64_encode(w.second.data(), 16);
    for (const char *op : {"-v", "-d"})
    {
      bool dec = op[1] == 'd';
      unlink((dir + "/dec.out").c_str());
      std::vector<std::string> av = {op, "-i", "f.wenc", "-k", ws, "-n"};
      if (dec)
      {
        av.push_back("-o");
        av.push_back("dec.out");
      }
      RunRes r = spawn(b1, av, dir);
      if (r.timed_out)
        continue;
      n++;
      if (r.signaled)
        return bad(std::string(op) + " with a wrong key (" + w.first + ", -k " + ws + ") was killed by signal " + std::to_string(r.sig));
      if (r.code == 0)
        return bad(std::string(op) + " with a wrong key (" + w.first + ", -k " + ws + ") exits 0");
      if (dec)
      {
        struct stat st;
        if (stat((dir + "/dec.out").c_str(), &st) == 0 && st.st_size > 0)
          return bad("-d with a wrong key (" + w.first + ", -k " + ws + ") left " + std::to_string((long)st.st_size) + " bytes in its output file");
      }
      v.more_distinct.push_back(fnv64(ks + ws + op));
    }
  }
  v.weight = n;
  return v;
}

// error paths: every allocation made while verifying / decrypting with a wrong key fails in turn. Whatever the
// code does about it (exception, abort, error return), it must not accept the key or write plaintext.
static Verdict run_c06_fault(const Case &c, const EncCase &e, const bytes &base)
{
  Verdict v;
  bytes w = c.getb("wrongkey");
  w.resize(16);
  v.classes.push_back("kind=allocfault");
  if (!wapi::has_scheduler() || w == e.key)
    return v;
  for (int dec = 0; dec < 2; dec++)
  {
    FaultRun cnt = run_faulted(dec, base, w, e, -1);
    if (cnt.st != CH_OK)
      continue; // C04 / C11 territory
    long A = std::min<long>(cnt.o.allocs_seen, 300);
    v.classes.push_back(A == 0 ? "no_allocations_counted" : "alloc_sweep");
    for (long n = 0; n < A; n++)
    {
      FaultRun fr = run_faulted(dec, base, w, e, n);
      v.weight++;
      std::string m;
      if (fr.st != CH_OK)
      {
        v.classes.push_back("fault:abnormal_end(accepted)");
        continue;
      }
      v.classes.push_back(!fr.o.fault_fired ? "fault:not_reached" : fr.o.threw ? "fault:exception" : "fault:handled_by_the_code");
      if (fr.o.fault_fired)
        v.more_distinct.push_back(fnv64(hex(w) + (dec ? "d" : "v") + std::to_string(n), fnv64(base.data(), base.size())));
      if (fr.o.ret)
        m = std::string(dec ? "decryption" : "verification") + " succeeded with a wrong key";
      else if (fr.o.out_writes || !fr.o.out.empty())
        m = std::string(dec ? "decryption" : "verification") + " with a wrong key wrote " + std::to_string(fr.o.out_written_bytes) + " bytes to the output";
      if (!m.empty())
      {
        Verdict fl = Verdict::fail(m + " when allocation #" + std::to_string(n) + " of the operation failed [key " + hex(w) + ", right key " + hex(e.key) + "]");
        fl.nontrivial = true;
        fl.classes = v.classes;
        return fl;
      }
    }
  }
  v.nontrivial = !v.more_distinct.empty();
  return v;
}

// error paths, input side: the encrypted file becomes unreadable (EIO) at some offset, for good or for one read.
// Whatever the code makes of the error, a wrong key is not accepted and nothing is written.
static Verdict run_c06_rderr(const Case &c, const EncCase &e, const bytes &base)
{
  Verdict v;
  bytes w = c.getb("wrongkey");
  w.resize(16);
  v.classes.push_back("kind=rderr");
  if (w == e.key)
    return v;
  size_t body = 48 + 20 * (size_t)e.T;
  std::vector<long> offs = {0, 8, 9, 10, 47, 48, 73, 74, (long)body - 1, (long)body, (long)body + 1, (long)body + 16, (long)base.size() - 17, (long)base.size() - 16, (long)base.size() - 1, (long)base.size()};
  for (long k = 0; k < 3; k++)
    offs.push_back((long)(c.geti("roff") * (k + 1) * 7919 % (long)(base.size() + 1)));
  for (long chunk_i = 1; body + chunk_i * e.chunk < base.size() && chunk_i < 6; chunk_i++)
    offs.push_back((long)(body + chunk_i * e.chunk));
  for (int dec = 0; dec < 2; dec++)
    for (int once = 0; once < 2; once++)
      for (long at : offs)
      {
        if (at < 0 || at > (long)base.size())
          continue;
        FaultRun fr = run_faulted(dec, base, w, e, -2, at, once);
        v.weight++;
        if (fr.st == CH_TIMEOUT)
          continue;
        if (fr.st != CH_OK)
        {
          v.classes.push_back("rderr:abnormal_end(accepted)");
          continue;
        }
        v.classes.push_back(once ? "rderr:transient" : "rderr:persistent");
        v.more_distinct.push_back(fnv64(hex(w) + (dec ? "d" : "v") + (once ? "o" : "p") + std::to_string(at), fnv64(base.data(), base.size())));
        std::string m;
        if (fr.o.ret)
          m = std::string(dec ? "decryption" : "verification") + " succeeded with a wrong key";
        else if (fr.o.out_writes || !fr.o.out.empty())
          m = std::string(dec ? "decryption" : "verification") + " with a wrong key wrote " + std::to_string(fr.o.out_written_bytes) + " bytes to the output";
        if (!m.empty())
        {
          Verdict fl = Verdict::fail(m + " when reading the input failed with EIO " + (once ? "once" : "from then on") + " at offset " + std::to_string(at) + " of the " + std::to_string(base.size()) + "-byte file [key " + hex(w) + ", right key " + hex(e.key) + ", T=" + std::to_string(e.T) + "]");
          fl.nontrivial = true;
          fl.classes = v.classes;
          return fl;
        }
      }
  v.nontrivial = !v.more_distinct.empty();
  return v;
}

// the encrypted file arrives through a pipe: the stream cannot seek (every fseek fails with ESPIPE) and its size is
// unknown (the CLI passes 0 when the size cannot be determined) or known. Whatever verify / decrypt make of the
// failed seeks, a wrong key is not accepted and nothing is written.
static Verdict run_c06_pipe(const Case &c, const EncCase &e, const bytes &base)
{
  Verdict v;
  bytes w0 = c.getb("wrongkey");
  w0.resize(16);
  v.classes.push_back("kind=pipe");
  std::vector<bytes> keys = {w0};
  for (int k = 0; k < 6; k++)
  {
    bytes w = e.key;
    long bit = (c.geti("roff") * (k + 1) * 31 + k * 23) % 128;
    w[(size_t)(bit / 8)] ^= (uint8_t)(1 << (bit % 8));
    keys.push_back(w);
  }
  for (int dec = 0; dec < 2; dec++)
    for (long hint : {0L, -1L})
      for (const bytes &w : keys)
      {
        if (w == e.key)
          continue;
        wapi::PipeCfg pc = pcfg(e, wapi::SchedSpec());
        pc.in_noseek = true;
        pc.fsize_hint = hint;
        ChildResult r = run_in_child([&]() { return (dec ? wapi::decrypt(base, w, pc) : wapi::verify(base, w, pc, true)).ser(); }, 60);
        v.weight++;
        if (r.status == CH_TIMEOUT)
          continue;
        if (r.status != CH_OK)
        {
          v.classes.push_back("pipe:abnormal_end(accepted)");
          continue;
        }
        wapi::OpOut o = wapi::OpOut::de(r.payload);
        v.more_distinct.push_back(fnv64(hex(w) + (dec ? "d" : "v") + std::to_string(hint), fnv64(base.data(), base.size())));
        std::string m;
        if (o.ret)
          m = std::string(dec ? "decryption" : "verification") + " succeeded with a wrong key";
        else if (o.out_writes || !o.out.empty())
          m = std::string(dec ? "decryption" : "verification") + " with a wrong key wrote " + std::to_string(o.out_written_bytes) + " bytes to the output";
        if (!m.empty())
        {
          Verdict fl = Verdict::fail(m + " when the " + std::to_string(base.size()) + "-byte file is read from a pipe (no seeking; size passed to the operation: " + (hint == 0 ? "0 = unknown" : "the real size") + ") [key " + hex(w) + ", right key " + hex(e.key) + ", T=" + std::to_string(e.T) + "]");
          fl.nontrivial = true;
          fl.classes = v.classes;
          return fl;
        }
      }
  v.nontrivial = !v.more_distinct.empty();
  return v;
}

// several verifications at the same time in one process (a front end that checks several files on several threads):
// one thread with the right key, the others with wrong keys. Real threads; run under ThreadSanitizer, whose report of a
// race inside wencry is the verdict (two verifications share state that one of them writes); an accepted wrong key is
// one as well.
static Verdict run_c06_conc(const Case &c, const EncCase &e, const bytes &base)
{
  Verdict v;
  v.nontrivial = true;
  v.distinct = fnv64("conc" + c.text());
  v.classes.push_back("kind=conc");
  if (wapi::has_scheduler())
    return v; // real threads only
  std::vector<bytes> keys = {e.key};
  for (int k = 0; k < 3; k++)
  {
    bytes w = e.key;
    long bit = (c.geti("roff") * (k + 3) * 29 + k * 41) % 128;
    w[(size_t)(bit / 8)] ^= (uint8_t)(1 << (bit % 8));
    keys.push_back(w);
  }
  int reps = (int)c.geti("reps", 40);
  v.weight = keys.size() * (uint64_t)reps;
  ChildResult r = run_in_child([&]() {
    std::vector<int> ok = wapi::verify_concurrent(base, keys, e.T, e.chunk, e.refill, reps);
    Ser s;
    for (int x : ok)
      s.u32((uint32_t)x);
    return s.b;
  }, 120);
  std::string ctxt = " [" + std::to_string(keys.size()) + " threads verify one " + std::to_string(base.size()) + "-byte file at the same time, " + std::to_string(reps) + " rounds each: the right key " + hex(e.key) + " and three one-bit neighbours, hmode " + std::to_string(e.hmode) + "]";
  if (r.status == CH_EXIT && r.code == 97)
  {
    size_t p1 = r.detail.find("WARNING:");
    std::string first = r.detail.substr(p1 == std::string::npos ? 0 : p1, 700);
    for (auto &ch : first)
      if (ch == '\n')
        ch = '|';
    if (r.detail.find("/kernel/") == std::string::npos)
    {
      Verdict f = Verdict::fail("harness: ThreadSanitizer report without a frame in wencry: " + first);
      f.infra = true;
      return f;
    }
    Verdict f = Verdict::fail("ThreadSanitizer: verifications that run at the same time (one of them with a wrong key) share state that one of them writes - which key a tag is computed under then depends on timing: " + first + ctxt);
    f.nontrivial = true;
    return f;
  }
  if (r.status == CH_TIMEOUT)
  {
    v.nontrivial = false;
    v.classes.push_back("watchdog_inconclusive");
    return v;
  }
  if (r.status != CH_OK)
    return Verdict::fail("concurrent verifications did not end normally: " + r.describe() + ctxt);
  De d(r.payload);
  std::vector<uint32_t> ok;
  for (size_t i = 0; i < keys.size(); i++)
    ok.push_back(d.u32());
  for (size_t i = 1; i < keys.size(); i++)
    if (ok[i] > 0)
    {
      Verdict f = Verdict::fail("verification succeeded with a wrong key (" + hex(keys[i]) + ", " + std::to_string(ok[i]) + " of " + std::to_string(reps) + " times) while another thread verified with the right key" + ctxt);
      f.nontrivial = true;
      return f;
    }
  if (ok[0] != (uint32_t)reps)
    v.classes.push_back("right_key_not_always_accepted_under_concurrency_see_C01_C12");
  return v;
}

static Verdict run_c06(const Case &c)
{
  if (c.get("kind", "one") == "cli")
    return run_c06_cli(c);
  Verdict v;
  EncCase e = enc_from(c);
  bytes base = ref::encrypt_file(e.P, fparams(e));
  if (c.get("kind", "one") == "allocfault")
    return run_c06_fault(c, e, base);
  if (c.get("kind", "one") == "rderr")
    return run_c06_rderr(c, e, base);
  if (c.get("kind", "one") == "pipe")
    return run_c06_pipe(c, e, base);
  if (c.get("kind", "one") == "conc")
    return run_c06_conc(c, e, base);
  std::vector<bytes> keys;
  std::vector<std::string> labels;
  std::string kind = c.get("kind", "one");
  if (kind == "neighbours")
  {
    for (int bit = 0; bit < 128; bit++)
    {
      bytes k = e.key;
      k[bit / 8] ^= (uint8_t)(1 << (bit % 8));
      keys.push_back(k);
      labels.push_back("key bit " + std::to_string(bit) + " flipped");
    }
  }
  else
  {
    bytes k = c.getb("wrongkey");
    k.resize(16);
    keys.push_back(k);
    labels.push_back("key " + hex(k));
  }
  // the right key goes first through the same process: a wrong key must be rejected no matter what was
  // verified before it
  if (c.geti("right_first", 1))
  {
    keys.insert(keys.begin(), e.key);
    labels.insert(labels.begin(), "the right key");
  }
  std::vector<bytes> files(keys.size(), base);
  v.classes.push_back("kind=" + kind);
  v.classes.push_back("hmode" + std::to_string(e.hmode));
  v.weight = keys.size();
  std::vector<DV> res = batch_dv(files, keys, e.T, e.chunk, e.refill);
  if (keys.size() > 1 && keys[0] == e.key && res[0].evaluated && res[0].st != CH_OK)
  {
    // the run with the right key did not end normally (not C06's subject): judge the wrong keys without it
    v.classes.push_back("right_key_run_abnormal_see_C01_C04_C11");
    keys.erase(keys.begin());
    labels.erase(labels.begin());
    files.erase(files.begin());
    res = batch_dv(files, keys, e.T, e.chunk, e.refill);
  }
  for (size_t i = 0; i < keys.size(); i++)
  {
    if (keys[i] == e.key)
    {
      const DV &rr = res[i];
      if (rr.evaluated && rr.st == CH_OK && (!rr.vret || !rr.dret || rr.dout != e.P))
        v.classes.push_back("right_key_not_accepted_see_C01_C02_C12"); // not a statement of C06
      continue; // not a wrong key
    }
    const DV &r = res[i];
    if (!r.evaluated || r.st == CH_TIMEOUT)
      continue;
    v.more_distinct.push_back(fnv64(hex(keys[i]), fnv64(base.data(), base.size())));
    std::string m;
    if (r.st != CH_OK)
      m = "verify/decrypt with a wrong key did not terminate normally: " + r.detail;
    else if (r.vret)
      m = "verification succeeded with a wrong key";
    else if (r.dret)
      m = "decryption succeeded with a wrong key";
    else if (r.d_writes || !r.dout.empty())
      m = "decryption with a wrong key wrote " + std::to_string(r.d_written_bytes) + " bytes to the output";
    if (!m.empty())
    {
      Verdict fl = Verdict::fail(m + " [" + labels[i] + ", right key " + hex(e.key) + "]");
      fl.nontrivial = true;
      fl.classes = v.classes;
      Case rc = c;
      rc.set("kind", "one");
      rc.setb("wrongkey", keys[i]);
      rc.seti("right_first", c.geti("right_first", 1));
      fl.replay_text = rc.text();
      return fl;
    }
  }
  v.nontrivial = !v.more_distinct.empty();
  return v;
}

static Case gen_c06()
{
  Case c;
  GenOpts o;
  o.maxT = 4;
  o.chunks = {16, 32, 64};
  o.max_len = 300;
  o.schedules = false;
  gen_enc(c, o);
  long k = g::range(0, 100);
  if (wapi::has_scheduler() && g::coin(2))
  {
    c.set("kind", "allocfault");
    bytes w = c.getb("key");
    w[(size_t)g::range(0, 16)] ^= (uint8_t)(1 << g::range(0, 8));
    c.setb("wrongkey", w);
    return c;
  }
  if (g::coin(1))
  {
    c.set("kind", "rderr");
    bytes w = c.getb("key");
    w[(size_t)g::range(0, 16)] ^= (uint8_t)(1 << g::range(0, 8));
    c.setb("wrongkey", w);
    c.seti("roff", g::range(1, 100000));
    return c;
  }
  if (g::coin(2))
  {
    c.set("kind", "pipe");
    c.setb("wrongkey", g::raw(16));
    c.seti("roff", g::range(1, 100000));
    return c;
  }
  if (k < 40)
    c.set("kind", "neighbours");
  else
  {
    c.set("kind", "one");
    bytes key = c.getb("key");
    bytes w;
    if (k < 60)
      w = g::raw(16);
    else if (k < 80) // shares 15 bytes
    {
      w = key;
      w[(size_t)g::range(0, 16)] ^= (uint8_t)g::range(1, 256);
    }
    else if (k < 90) // byte-rotated / reversed
    {
      w = key;
      std::reverse(w.begin(), w.end());
    }
    else
      w = bytes(16, (uint8_t)g::range(0, 256));
    c.setb("wrongkey", w);
  }
  return c;
}

static void fixed_c06(Ctx &ctx)
{
  const Prop *p = find_prop("C06");
  uint64_t i = 0;
  if (ctx.mode == "conc")
  {
    for (int rep = 0; rep < (ctx.thorough() ? 6 : 1); rep++)
      for (int hm = 0; hm < 3; hm++)
        for (int len : {40, 700})
        {
          if (!mine(ctx, i++))
            continue;
          Case c;
          c.set("kind", "conc");
          c.seti("plen", len + rep);
          c.set("pseed", std::to_string(ctx.seed * 10 + (uint64_t)(rep * 7 + hm)));
          c.seti("pstyle", 0);
          c.setb("key", expand(ctx.seed * 17 + (uint64_t)(rep * 3 + hm), 16, 0));
          c.setb("seed", bytes{'c', 'c'});
          c.seti("cmode", (hm + rep) % 5);
          c.seti("hmode", hm);
          c.seti("T", 2);
          c.seti("chunk", 32);
          c.seti("refill", 2);
          c.seti("roff", 100 + rep * 13 + hm);
          c.seti("reps", 40);
          eval_fixed(*p, ctx, c);
        }
    return;
  }
  if (ctx.mode == "cli")
  {
    for (int rep = 0; rep < (ctx.thorough() ? 8 : 1); rep++)
      for (int cm = 0; cm < 5; cm++)
        for (int hm = 0; hm < 3; hm++)
        {
          if (!mine(ctx, i++))
            continue;
          Case c;
          c.set("kind", "cli");
          c.seti("plen", 40 + 7 * cm + hm);
          c.set("pseed", std::to_string(ctx.seed * 100 + (uint64_t)(rep * 15 + cm * 3 + hm)));
          // keys whose last byte has every combination of the two lowest bits, a zero byte, high bytes
          bytes key = expand(ctx.seed * 31 + (uint64_t)(rep * 15 + cm * 3 + hm), 16, 0);
          key[15] = (uint8_t)((key[15] & 0xfc) | ((cm + hm + rep) & 3));
          if ((cm + rep) % 4 == 3)
            key[(size_t)hm] = 0;
          c.setb("key", key);
          c.seti("cmode", cm);
          c.seti("hmode", hm);
          eval_fixed(*p, ctx, c);
        }
    return;
  }
  for (int cm = 0; cm < 5; cm++)
    for (int hm = 0; hm < 3; hm++)
    {
      if (!mine(ctx, i++))
        continue;
      Case c;
      c.set("kind", "neighbours");
      c.seti("plen", 50 + cm);
      c.set("pseed", std::to_string(cm + hm));
      c.seti("pstyle", 0);
      c.setb("key", cm == 0 ? bytes(16, 0) : cm == 1 ? bytes(16, 0xff) : expand(cm * 3 + hm, 16, 0));
      c.setb("seed", bytes{'k'});
      c.seti("cmode", cm);
      c.seti("hmode", hm);
      c.seti("T", 1 + hm);
      c.seti("chunk", 32);
      eval_fixed(*p, ctx, c);
      if (wapi::has_scheduler())
      {
        bytes w = c.getb("key");
        w[3] ^= 0x10;
        c.set("kind", "allocfault");
        c.setb("wrongkey", w);
        eval_fixed(*p, ctx, c);
      }
      {
        bytes w = c.getb("key");
        w[9] ^= 0x01;
        c.set("kind", "rderr");
        c.setb("wrongkey", w);
        c.seti("roff", 1000 + cm * 10 + hm);
        eval_fixed(*p, ctx, c);
        c.set("kind", "pipe");
        eval_fixed(*p, ctx, c);
      }
    }
}

static PropReg reg({"C06", gen_c06, run_c06, fixed_c06, 8000, 300000, 100, "sched"});
