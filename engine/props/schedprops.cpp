#include "../schedprops.h"

std::vector<wapi::Decision> g_last_trace;
bool g_last_trace_valid = false;

// ------------------------------------------------------------------------------------------------
// ownership monitor (C14)
// sizes_unknown: a read of the input failed in the middle of the run, so how many blocks each chunk holds (and how
// many chunks there are) is not known in advance; the ownership rules, "own buffer only" and "in order" still apply
std::string monitor_events(const std::vector<wapi::Event> &ev, int T, const std::vector<uint32_t> &blocks_per_fill, bool recorder, std::map<std::string, uint64_t> *counts, bool partial, bool sizes_unknown)
{
  enum
  {
    OWN_IO,
    OWN_WORKER,
    OWN_NONE
  };
  uint64_t bbase = 0, bstride = 0, cbase = 0, cstride = 0;
  int nb = 0;
  std::vector<int> owner(T, OWN_IO);
  std::vector<uint32_t> taken(T, 0), expect(T, 0);
  std::vector<int> filling(T, 0), flushing(T, 0), has_data(T, 0), fill_no(T, -1);
  std::vector<uint64_t> last_take(T, 0);
  std::vector<int> in_use(T, 0); // worker holds a block it was given and has not come back for the next one
  size_t fills = 0, flushes = 0, handbacks = 0, publishes = 0, takes = 0, runcry = 0;
  auto err = [&](size_t i, const std::string &m) { return "event #" + std::to_string(i) + ": " + m; };
  for (size_t i = 0; i < ev.size(); i++)
  {
    const wapi::Event &e = ev[i];
    switch (e.kind)
    {
    case EV_GROUP_BUF:
      bbase = e.obj;
      nb = (int)e.a;
      bstride = (uint64_t)e.b;
      if (nb != T)
        return err(i, "buffer count " + std::to_string(nb) + " != T");
      break;
    case EV_GROUP_CTRL:
      cbase = e.obj;
      cstride = (uint64_t)e.b;
      break;
    case EV_STATE:
    {
      if (!cstride || e.obj < cbase || (e.obj - cbase) % cstride || (e.obj - cbase) / cstride >= (uint64_t)T)
        return err(i, "state change on an unknown controller");
      int b = (int)((e.obj - cbase) / cstride);
      if (e.b == 0) // set_ready by the I/O thread
      {
        if (e.tid != 0)
          return err(i, "buffer " + std::to_string(b) + " published by thread " + std::to_string(e.tid) + " (not the I/O thread)");
        if (owner[b] != OWN_IO)
          return err(i, "buffer " + std::to_string(b) + " published while a worker still owns it");
        if (filling[b] || flushing[b])
          return err(i, "buffer " + std::to_string(b) + " published in the middle of a fill/flush");
        if (e.a == 2)
        {
          if (!has_data[b])
            return err(i, "buffer " + std::to_string(b) + " set READY without a preceding non-empty fill");
          owner[b] = OWN_WORKER;
          taken[b] = 0;
          publishes++;
        }
        else if (e.a == 3)
          owner[b] = OWN_NONE;
        else
          return err(i, "set_ready produced state " + std::to_string(e.a));
      }
      else // set_update by the worker: hand back
      {
        if (e.tid != b + 1)
          return err(i, "buffer " + std::to_string(b) + " handed back by thread " + std::to_string(e.tid) + ", not by its worker");
        if (owner[b] != OWN_WORKER)
          return err(i, "buffer " + std::to_string(b) + " handed back although the worker does not own it");
        if (!sizes_unknown && taken[b] != expect[b])
          return err(i, "buffer " + std::to_string(b) + " handed back after " + std::to_string(taken[b]) + " of " + std::to_string(expect[b]) + " blocks");
        owner[b] = OWN_IO;
        handbacks++;
      }
      break;
    }
    case EV_TAKE:
    {
      int w = (int)e.a;
      if (w < 0 || w >= T)
        return err(i, "take by unknown worker");
      if (e.tid != w + 1)
        return err(i, "worker id " + std::to_string(w) + " used by thread " + std::to_string(e.tid));
      if (owner[w] != OWN_WORKER)
        return err(i, "worker " + std::to_string(w) + " looked at its buffer while it does not own it (owner=" + (owner[w] == OWN_IO ? "I/O thread" : "nobody") + ")");
      if (e.obj)
      {
        if (!bstride || e.obj < bbase || (e.obj - bbase) / bstride >= (uint64_t)T)
          return err(i, "block pointer outside every chunk buffer");
        int b = (int)((e.obj - bbase) / bstride);
        uint64_t blk = ((e.obj - bbase) % bstride) / 16;
        if (b != w)
          return err(i, "worker " + std::to_string(w) + " was given a block of buffer " + std::to_string(b));
        if (blk != taken[b])
          return err(i, "buffer " + std::to_string(b) + ": block " + std::to_string(blk) + " taken, expected block " + std::to_string(taken[b]) + " (each block once, in order)");
        if (!sizes_unknown && taken[b] >= expect[b])
          return err(i, "buffer " + std::to_string(b) + ": more blocks taken than the chunk holds");
        taken[b]++;
        last_take[w] = e.obj;
        in_use[w] = 1;
        takes++;
      }
      break;
    }
    case EV_RUNCRY:
    {
      if (!bstride || e.obj < bbase || (e.obj - bbase) / bstride >= (uint64_t)T)
        return err(i, "cipher stream ran on memory outside every chunk buffer");
      int b = (int)((e.obj - bbase) / bstride);
      if (owner[b] != OWN_WORKER)
        return err(i, "cipher stream touched buffer " + std::to_string(b) + " while its worker does not own it");
      if (e.tid != b + 1)
        return err(i, "buffer " + std::to_string(b) + " processed by thread " + std::to_string(e.tid));
      if ((int)e.a != b)
        return err(i, "buffer " + std::to_string(b) + " processed by stream " + std::to_string(e.a));
      if (last_take[b] != e.obj)
        return err(i, "cipher stream ran on a block that is not the one just taken");
      runcry++;
      break;
    }
    case EV_FILL_BEGIN:
    case EV_FLUSH_BEGIN:
    {
      int b = (int)e.a;
      if (b < 0 || b >= T)
        return err(i, "fill/flush of unknown buffer");
      if (e.tid != 0)
        return err(i, "fill/flush by thread " + std::to_string(e.tid));
      if (owner[b] == OWN_WORKER)
        return err(i, std::string(e.kind == EV_FILL_BEGIN ? "refill" : "flush") + " of buffer " + std::to_string(b) + " started while its worker owns it");
      if (in_use[b])
        return err(i, std::string(e.kind == EV_FILL_BEGIN ? "refill" : "flush") + " of buffer " + std::to_string(b) + " started while its worker still holds a block of it (taken, not yet back for the next one)");
      if (e.kind == EV_FILL_BEGIN)
        filling[b] = 1;
      else
      {
        if (!has_data[b])
          return err(i, "flush of buffer " + std::to_string(b) + " which holds no processed chunk");
        flushing[b] = 1;
      }
      break;
    }
    case EV_FLUSH_END:
    {
      int b = (int)e.a;
      if (owner[b] == OWN_WORKER)
        return err(i, "buffer " + std::to_string(b) + " acquired by a worker during its flush");
      flushing[b] = 0;
      has_data[b] = 0;
      flushes++;
      break;
    }
    case EV_FILL_END:
    {
      int b = (int)e.a;
      if (owner[b] == OWN_WORKER)
        return err(i, "buffer " + std::to_string(b) + " acquired by a worker during its refill");
      filling[b] = 0;
      if (e.b != 2) // not NODATA
      {
        if ((int)(fills % (size_t)T) != b)
          return err(i, "chunk " + std::to_string(fills) + " was loaded into buffer " + std::to_string(b) + ", owner position is " + std::to_string(fills % T));
        if (!sizes_unknown && fills >= blocks_per_fill.size())
          return err(i, "more chunks loaded than the input holds");
        expect[b] = fills < blocks_per_fill.size() ? blocks_per_fill[fills] : 0;
        has_data[b] = 1;
        fill_no[b] = (int)fills;
        fills++;
      }
      break;
    }
    case EV_FOREIGN_WRITE:
    {
      // reported by the harness (wapi.cpp): a copy of the buffer array taken when the fill began differs, at the first
      // yield point after the read, outside the data area of the buffer being filled. Nothing else ran in between
      // (deterministic scheduler), so the I/O thread's read wrote there.
      uint64_t off = bstride ? e.obj - bbase : 0, victim = bstride ? off / bstride : 0, fb = bstride ? (uint64_t)e.b / bstride : 0;
      return err(i, "while filling buffer " + std::to_string(fb) + " the I/O thread's read changed " + std::to_string(e.a) + " bytes of the buffer array outside that buffer's data area, first at offset " + std::to_string(off % (bstride ? bstride : 1)) + " of buffer " + std::to_string(victim) + (victim == fb ? " (its control fields)" : owner.size() > victim && owner[victim] == OWN_WORKER ? ", which a worker owns at that moment" : ", which it does not hold for filling"));
    }
    case EV_WORKER_ENTER:
      if (e.tid != (int)e.a + 1)
        return err(i, "worker id " + std::to_string(e.a) + " used by thread " + std::to_string(e.tid));
      if (e.a >= 0 && e.a < T)
        in_use[e.a] = 0;
      break;
    default:
      break;
    }
  }
  if (partial || sizes_unknown)
    return ""; // an incomplete run (it did not terminate: C04's verdict): only the safety rules above apply
  if (fills != blocks_per_fill.size())
    return "only " + std::to_string(fills) + " of " + std::to_string(blocks_per_fill.size()) + " chunks were loaded";
  if (flushes != fills)
    return std::to_string(fills) + " chunks loaded but " + std::to_string(flushes) + " flushed";
  if (handbacks != fills || publishes != fills)
    return "publish/hand-back count mismatch";
  for (int b = 0; b < T; b++)
    if (owner[b] != OWN_NONE)
      return "buffer " + std::to_string(b) + " not invalidated at the end";
  uint64_t total_blocks = 0;
  for (auto x : blocks_per_fill)
    total_blocks += x;
  if (takes != total_blocks)
    return "blocks taken " + std::to_string(takes) + " != blocks in the input " + std::to_string(total_blocks);
  if (recorder && runcry != total_blocks)
    return "cipher stream calls " + std::to_string(runcry) + " != blocks " + std::to_string(total_blocks);
  if (counts)
  {
    (*counts)["fills"] += fills;
    (*counts)["takes"] += takes;
  }
  return "";
}

// ------------------------------------------------------------------------------------------------
static std::vector<uint32_t> fills_of(uint64_t total_bytes, int chunk)
{
  std::vector<uint32_t> v;
  for (uint64_t o = 0; o < total_bytes; o += (uint64_t)chunk)
    v.push_back((uint32_t)((std::min<uint64_t>(total_bytes, o + chunk) - o) / 16));
  return v;
}

// recorder expectation: block g of the (padded) input is transformed by stream chunk(g) mod T
static void rec_expected(const bytes &in_blocks, int T, int chunk, bytes &out, std::vector<int> *stream_of = nullptr, std::vector<uint32_t> *ord_of = nullptr)
{
  out.resize(in_blocks.size());
  std::vector<uint32_t> ord(T, 0);
  for (size_t o = 0; o + 16 <= in_blocks.size(); o += 16)
  {
    int s = (int)((o / (size_t)chunk) % (size_t)T);
    if (stream_of)
      stream_of->push_back(s);
    if (ord_of)
      ord_of->push_back(ord[s]);
    wapi::rec_transform(s, ord[s]++, in_blocks.data() + o, out.data() + o);
  }
}

// An earlier operation of the same process (C04 only): the judged operation must terminate whatever ran before
// it. Small fixed input, canonical schedule; `pre` = rejdec | rejver | garbage | enc | dec.
static void run_prelude(const std::string &pre, const EncCase &e, int preT)
{
  EncCase pe = e;
  pe.T = preT;
  pe.P = expand(0x5eed, 40, 0);
  pe.seed = bytes{'p', 'r', 'e'};
  pe.refill = 0;
  wapi::SchedSpec canon;
  wapi::PipeCfg pc = pcfg(pe, canon);
  bytes file = ref::encrypt_file(pe.P, fparams(pe));
  bytes wrong = pe.key;
  wrong[5] ^= 0x40;
  if (pre == "rejdec")
    wapi::decrypt(file, wrong, pc);
  else if (pre == "rejver")
    wapi::verify(file, wrong, pc, false);
  else if (pre == "garbage")
    wapi::decrypt(expand(0xbad, 100, 0), pe.key, pc);
  else if (pre == "enc")
    wapi::encrypt(pe.P, pe.key, pe.seed, pe.cmode, pe.hmode, pc);
  else if (pre == "dec")
    wapi::decrypt(file, pe.key, pc);
}

Verdict run_sched_case(const Case &c, SchedProp which)
{
  EncCase e = enc_from(c);
  std::string op = c.get("op", "enc");
  Verdict v;
  bool is_rec = (op == "rec" || op == "recnp");
  // ---- inputs and expectations (all from the reference, none from wencry) ----
  bytes input, expect_out;
  std::vector<uint32_t> bpf;
  if (op == "enc")
  {
    input = e.P;
    expect_out = ref::encrypt_file(e.P, fparams(e));
    bpf = fills_of(padded(e.P.size()), e.chunk);
  }
  else if (op == "dec" || op == "ver")
  {
    input = ref::encrypt_file(e.P, fparams(e));
    if (which == SP_C04 && c.has("cut") && input.size() > 48 + 20 * (size_t)e.T + (size_t)c.geti("cut"))
    {
      // an authentic file that no encryption wrote: the last 1..15 bytes cut off and the tag recomputed by the key
      // holder. Verify accepts it; the body ends in a partial block (possibly as the only content of a chunk). The
      // operation has to return whatever it makes of it.
      input.resize(input.size() - (size_t)c.geti("cut"));
      bytes t = ref::hmac(e.hmode, e.key, input.data() + 48, input.size() - 48);
      for (size_t i = 0; i < t.size(); i++)
        input[10 + i] = t[i];
    }
    expect_out = (op == "dec") ? e.P : bytes();
    bpf = (op == "dec") ? fills_of(padded(e.P.size()), e.chunk) : std::vector<uint32_t>();
  }
  else if (op == "rec")
  {
    input = e.P;
    bytes pp = ref::pkcs7_pad(e.P);
    rec_expected(pp, e.T, e.chunk, expect_out);
    bpf = fills_of(pp.size(), e.chunk);
  }
  else // recnp: decrypt-like pipeline (no padding on load, padding stripped on export)
  {
    input = e.P;
    input.resize((input.size() / 16 + 1) * 16, 0x33); // >= 1 block, multiple of 16
    std::vector<int> so;
    std::vector<uint32_t> oo;
    bytes tmp;
    rec_expected(input, e.T, e.chunk, tmp, &so, &oo);
    // craft the last block so that the transformed last byte is a valid pad length
    size_t lb = input.size() - 16;
    uint8_t pad = (uint8_t)(1 + (e.P.size() % 16));
    uint8_t probe_in[16] = {0}, probe_out[16];
    wapi::rec_transform(so.back(), oo.back(), probe_in, probe_out);
    input[lb + 0] = (uint8_t)(pad ^ probe_out[15]); // out[15] = in[(15+1)&15] ^ mask15
    rec_expected(input, e.T, e.chunk, expect_out);
    if (expect_out.back() != pad)
      return [&] { Verdict f = Verdict::fail("harness: recorder pad crafting failed"); f.infra = true; return f; }();
    expect_out.resize(expect_out.size() - pad);
    bpf = fills_of(input.size(), e.chunk);
  }
  uint64_t nch = bpf.size();
  // ---- run ----
  wapi::PipeCfg pc = pcfg(e, e.s1);
  pc.sched.record = true;
  pc.want_events = (which == SP_C14) && wapi::has_scheduler(); // on real threads the event log's own lock would order the threads and hide races
  g_last_trace_valid = false;
  if (which == SP_C04 && c.has("rderr"))
    pc.in_fail_at = (long)c.geti("rderr"); // an unreadable stretch of the input: the operation may fail, it must still return
  if (which == SP_C04 && c.has("wrerr"))
    pc.out_fail_at = (long)c.geti("wrerr"); // the output device fills up: the operation may fail, it must still return
  bool rd1 = which == SP_C14 && c.has("rderr1") && (op == "enc" || op == "rec");
  if (rd1)
  {
    // ONE read of the input fails (EINTR / transient EIO) in the middle of the run, after part of a chunk was
    // delivered; later reads succeed. What the pipeline makes of the data is not C14's subject - who touches which
    // buffer when is.
    pc.in_fail_at = (long)c.geti("rderr1");
    pc.in_fail_once = true;
  }
  std::string pre = c.get("pre", ""); // an earlier operation in the same process (all three properties)
  int preT = (int)c.geti("preT");
  auto job = [&]() -> bytes {
    if (!pre.empty())
      run_prelude(pre, e, preT < 1 ? 1 : preT);
    if (op == "enc")
      return wapi::encrypt(input, e.key, e.seed, e.cmode, e.hmode, pc).ser();
    if (op == "dec")
      return wapi::decrypt(input, e.key, pc).ser();
    if (op == "ver")
      return wapi::verify(input, e.key, pc, false).ser();
    return wapi::run_recorder(input, op == "rec", pc).ser();
  };
  ChildResult r = run_in_child(job);
  bool hung_twice = false;
  if (r.status == CH_TIMEOUT && which == SP_C04 && wapi::has_scheduler())
  {
    // under the scheduler a case takes milliseconds; 60 s without a result means a loop that never reaches a
    // schedule point or a stream (the step bound and the callback bound cannot fire). Once more, with 3x the time.
    ChildResult r2 = run_in_child(job, 180);
    if (r2.status == CH_TIMEOUT)
      hung_twice = true;
    else
      r = r2;
  }
  wapi::OpOut o;
  wapi::RecOut ro;
  if (r.status == CH_OK)
  {
    if (is_rec)
    {
      ro = wapi::RecOut::de(r.payload);
      o = ro.op;
    }
    else
      o = wapi::OpOut::de(r.payload);
    g_last_trace = o.sched.trace;
    g_last_trace_valid = true;
  }
  else if (r.status == CH_DEADLOCK || r.status == CH_STEPLIMIT)
  {
    De d(r.payload);
    uint32_t n = d.u32();
    g_last_trace.clear();
    for (uint32_t i = 0; i < n && !d.bad; i++)
    {
      wapi::Decision t;
      t.n = d.u8();
      t.chosen = d.u8();
      t.cur_runnable = d.u8();
      t.tid = d.u8();
      g_last_trace.push_back(t);
    }
    g_last_trace_valid = !d.bad;
    uint32_t ne = d.u32();
    for (uint32_t i = 0; i < ne && !d.bad; i++)
    {
      wapi::Event e;
      e.kind = (int)d.u32();
      e.tid = (int)d.u32();
      e.obj = d.u64();
      e.a = (long)d.u64();
      e.b = (long)d.u64();
      o.events.push_back(e);
    }
  }
  // ---- classes ----
  bool preempted = o.sched.preemptions > 0;
  bool bnd = boundary_len(e.P.size(), e.chunk);
  v.classes.push_back("op=" + op);
  v.classes.push_back(e.T == 1 ? "T=1" : e.T <= 4 ? "T2-4" : "T5-16");
  v.classes.push_back(nch >= 2 ? "chunks>=2" : "chunks<2");
  if (preempted)
    v.classes.push_back("preempted");
  if (o.sched.spurious)
    v.classes.push_back("spurious_wakeup");
  if (nch > (uint64_t)e.T)
    v.classes.push_back("buffer_refilled");
  if (nch > 256)
    v.classes.push_back("more_than_256_chunk_loads");
  if (nch > 65536)
    v.classes.push_back("more_than_65536_chunk_loads");
  if ((uint64_t)e.T > nch)
    v.classes.push_back("T>chunks");
  if (e.P.empty())
    v.classes.push_back("empty_input");
  if (bnd)
    v.classes.push_back("boundary_len");
  v.classes.push_back("sched_kind" + std::to_string(e.s1.kind));
  if (!pre.empty())
    v.classes.push_back("after_earlier_op=" + pre);
  if (pc.in_fail_at >= 0)
    v.classes.push_back("input_read_error_injected");
  if (pc.out_fail_at >= 0)
    v.classes.push_back("output_write_error_injected");
  if (which == SP_C04 && c.has("cut") && (op == "dec" || op == "ver"))
    v.classes.push_back("authentic_file_with_partial_last_block");
  if (pc.in_noseek)
    v.classes.push_back("input_is_a_pipe");
  if (pc.fsize_hint == 0)
    v.classes.push_back("size_passed_as_0");
  {
    // distinct by (config, resolved decision trace)
    std::string t;
    for (auto &d : g_last_trace)
      t += (char)('a' + d.tid);
    Case id;
    id.set("op", op);
    id.seti("plen", (long long)e.P.size());
    id.seti("chunk", e.chunk);
    id.seti("T", e.T);
    id.seti("cm", e.cmode);
    id.set("trace", t);
    id.set("spur", std::to_string(o.sched.spurious));
    id.set("pre", pre);
    id.seti("rderr", pc.in_fail_at);
    id.seti("wrerr", pc.out_fail_at);
    id.seti("pipe", pc.in_noseek ? 1 : 0);
    id.seti("cut", which == SP_C04 ? c.geti("cut") : 0);
    id.seti("rd1", rd1 ? pc.in_fail_at : -1);
    v.distinct = fnv64(id.text());
  }
  if (which == SP_C04)
    v.nontrivial = preempted || bnd || e.P.empty() || (uint64_t)e.T > nch;
  else if (which == SP_C14)
    v.nontrivial = preempted && nch >= 2 && nch > (uint64_t)e.T;
  else
    v.nontrivial = preempted && nch >= 2;
  auto bad = [&](const std::string &m) {
    Verdict f = Verdict::fail(op + ": " + m);
    f.nontrivial = v.nontrivial;
    f.classes = v.classes;
    f.distinct = v.distinct;
    return f;
  };
  if (hung_twice)
    return [&] { Verdict f = bad("did not return within 60 s and again within 180 s under the deterministic scheduler (a case of this size takes milliseconds; no schedule point and no stream call was reached in the meantime, so neither bound could fire): endless loop"); f.slow = true; return f; }();
  if (r.status == CH_TIMEOUT)
  {
    v.classes.push_back("watchdog_inconclusive");
    v.nontrivial = false;
    return v;
  }
  // ---- real-thread builds (ThreadSanitizer): no scheduler, no event ordering; the oracle is the sanitizer
  //      (any data race between pipeline threads, whatever the timing) plus, for C03, the output ----
  if (!wapi::has_scheduler())
  {
    v.classes.push_back("real_threads_tsan");
    if (r.status == CH_EXIT && r.code == 97)
    {
      // judge the sanitizer's report: which threads, which memory, inside the transformation or not
      const std::string &rep = r.detail;
      bool is_race = rep.find("ThreadSanitizer: data race") != std::string::npos;
      bool main_party = rep.find("by main thread") != std::string::npos;
      bool worker_party = false;
      for (size_t p = rep.find("by thread T"); p != std::string::npos; p = rep.find("by thread T", p + 1))
        worker_party = true;
      bool heap = rep.find("Location is heap block") != std::string::npos;
      bool symbolized = rep.find("multiruncrypt_file") != std::string::npos || rep.find(".cpp:") != std::string::npos;
      bool in_transform = rep.find("runcry") != std::string::npos || rep.find("runaes_128bit") != std::string::npos;
      std::string summary;
      {
        size_t pos = 0;
        int kept = 0;
        while (pos < rep.size() && kept < 14)
        {
          size_t nl = rep.find('\n', pos);
          if (nl == std::string::npos)
            nl = rep.size();
          std::string ln = rep.substr(pos, nl - pos);
          pos = nl + 1;
          bool keep = ln.find("WARNING:") != std::string::npos || ln.find(" of size ") != std::string::npos || ln.find("Location is") != std::string::npos || ln.find("#0 ") != std::string::npos || ln.find("#1 ") != std::string::npos;
          if (keep)
          {
            size_t par = ln.find(" (harness-");
            if (par != std::string::npos)
              ln = ln.substr(0, par);
            while (!ln.empty() && ln[0] == ' ')
              ln.erase(0, 1);
            summary += (summary.empty() ? "" : " | ") + ln;
            kept++;
          }
        }
      }
      if (rep.empty())
        return bad("ThreadSanitizer stopped the run (exit 97) but left no report file");
      // a report without any frame in wencry's sources would be a race inside the harness: never a verdict
      bool repo_frame = !symbolized || rep.find("/kernel/") != std::string::npos;
      bool hit;
      if (!repo_frame)
        hit = false;
      else if (which == SP_C14)
      {
        // I/O thread and a worker on the same buffer / control block without a hand-over in between; or two WORKERS
        // racing inside the buffer group's own code (two workers on one slot: "every chunk is given to exactly one worker")
        int workers = 0;
        for (size_t p = rep.find(" by thread T"); p != std::string::npos; p = rep.find(" by thread T", p + 1))
          workers++;
        bool group_code = rep.find("buffergroup::") != std::string::npos || rep.find("bufferctrl::") != std::string::npos || rep.find("iobuffer::") != std::string::npos;
        // the group's bookkeeping may also live in a static (not on the heap): with a frame in the group's code any
        // race that involves a worker counts, wherever the memory is
        hit = is_race && worker_party && ((heap && main_party) || (group_code && (main_party || workers >= 2)));
      }
      else if (which == SP_C03)
        hit = is_race && worker_party && (heap || in_transform || !symbolized); // chunk data or the cipher transformation itself depends on the schedule
      else
        hit = false;
      if (hit)
        return bad("ThreadSanitizer: data race between pipeline threads, no hand-over orders the two accesses: " + summary);
      if (getenv("WV_DEBUG_TSAN"))
        fprintf(stderr, "TSAN-OUTSIDE heap=%d main=%d worker=%d transform=%d sym=%d\n%s\n", heap, main_party, worker_party, in_transform, symbolized, rep.c_str());
      v.classes.push_back(is_race ? "tsan_race_outside_this_property" : "tsan_other_report");
      v.nontrivial = false;
      return v;
    }
    if (which != SP_C03 || r.status != CH_OK)
    {
      v.nontrivial = which != SP_C04 && r.status == CH_OK && nch >= 2 && e.T >= 2;
      return v; // hangs / crashes on real threads: the deterministic runs decide those
    }
    v.nontrivial = nch >= 2 && e.T >= 2;
  }
  // ---- C04: termination ----
  if (which == SP_C04)
  {
    std::string after = pre.empty() ? "" : " (operation run after an earlier " + pre + " with T=" + std::to_string(preT) + " in the same process; the hang may be in either)";
    if (r.status == CH_DEADLOCK || r.status == CH_STEPLIMIT)
      return bad("did not terminate: " + r.describe() + after);
    if (r.status != CH_OK)
      return bad("did not return normally: " + r.describe() + after);
    if (o.live_after != 0)
      return bad("operation returned but the buffer controller still reports live buffers");
    return v;
  }
  if (r.status != CH_OK)
  {
    if (which == SP_C14)
    {
      // the run did not terminate (C04's verdict); the hand-over rules are still judged on the events
      // recorded up to that point
      v.classes.push_back("incomplete_run_safety_rules_only");
      v.nontrivial = false;
      if ((r.status == CH_DEADLOCK || r.status == CH_STEPLIMIT) && op != "ver" && !o.events.empty())
      {
        std::string m = monitor_events(o.events, e.T, bpf, is_rec, nullptr, true, rd1);
        if (!m.empty())
          {
          std::string why = r.describe();
          size_t hp = why.find("stopped by the harness");
          if (hp != std::string::npos)
            why = why.substr(hp);
          return bad("hand-over protocol violated (in a run that did not run to completion: " + why + "): " + m);
        }
      }
      return v;
    }
    return bad("no complete output under this schedule: " + r.describe());
  }
  // ---- C03: output identical to the schedule-independent reference; exactly-once ----
  if (which == SP_C03)
  {
    if (op == "ver")
    {
      if (!o.ret)
        return bad("verification of an authentic file failed under this schedule");
      return v;
    }
    if (!o.ret)
      return bad("operation reported failure under this schedule");
    if (o.out != expect_out)
    {
      int hl = ref::Hash::hlen(e.hmode);
      std::string where;
      if (op == "enc")
        where = ref::first_diff_field(o.out, expect_out, e.T, e.chunk, hl);
      else
      {
        size_t i = 0;
        while (i < o.out.size() && i < expect_out.size() && o.out[i] == expect_out[i])
          i++;
        where = "offset " + std::to_string(i) + " (chunk " + std::to_string(i / e.chunk) + "), lengths " + std::to_string(o.out.size()) + " vs " + std::to_string(expect_out.size());
      }
      return bad("output differs from the schedule-independent reference: " + where);
    }
    if (is_rec)
    {
      // every block exactly once, by the owning stream, in order within the stream, by that stream's thread
      size_t nblocks = 0;
      for (auto x : bpf)
        nblocks += x;
      if (ro.calls.size() != nblocks)
        return bad("cipher streams were called " + std::to_string(ro.calls.size()) + " times for " + std::to_string(nblocks) + " blocks");
      std::vector<uint32_t> next(e.T, 0);
      std::set<std::pair<uint64_t, uint32_t>> seen;
      for (auto &cl : ro.calls)
      {
        if (cl.stream < 0 || cl.stream >= e.T)
          return bad("unknown stream");
        if (cl.ordinal != next[cl.stream]++)
          return bad("stream " + std::to_string(cl.stream) + " called out of order");
        if (cl.tid >= 0 && cl.tid != cl.stream + 1)
          return bad("stream " + std::to_string(cl.stream) + " driven by thread " + std::to_string(cl.tid));
        if (ro.buf_stride)
        {
          uint64_t b = (cl.addr - ro.buf_base) / ro.buf_stride;
          if (b != (uint64_t)cl.stream)
            return bad("stream " + std::to_string(cl.stream) + " ran on buffer " + std::to_string(b));
        }
      }
    }
    return v;
  }
  // ---- C14: ownership monitor ----
  if (op == "ver")
  {
    v.nontrivial = false;
    return v; // verification does not run the chunk pipeline
  }
  std::string m = monitor_events(o.events, e.T, bpf, is_rec, nullptr, false, rd1);
  if (rd1)
    v.classes.push_back("one_read_of_the_input_failed");
  if (o.events.empty())
  {
    Verdict f = Verdict::fail("no hook events recorded: instrumentation missing");
    f.infra = true;
    return f;
  }
  if (!m.empty())
    return bad("hand-over protocol violated: " + m);
  return v;
}

Case gen_sched_case(SchedProp which)
{
  Case c;
  long k = g::range(0, 100);
  std::string op = k < 30 ? "enc" : k < 55 ? "dec" : k < 60 ? "ver" : k < 85 ? "rec" : "recnp";
  if (!wapi::has_scheduler()) // real threads: the recorder serialises workers through its own lock and would hide races
    op = k < 48 ? "enc" : k < 94 ? "dec" : "ver";
  c.set("op", op);
  int T = (int)(g::coin(85) ? g::range(1, 6) : g::coin(50) ? 16 : g::range(6, 17));
  int bpc = (int)g::range(1, 5); // blocks per chunk
  int chunk = 16 * bpc;
  long q = g::range(0, 3 * T + 2);
  if (q * bpc > 60)
    q = 60 / bpc;
  long r;
  if (g::coin(50))
    r = g::oneof<long>({0, 1, 15, 16, 17, chunk - 17, chunk - 16, chunk - 15, chunk - 1});
  else
    r = g::range(0, chunk);
  if (r < 0)
    r = 0;
  r %= chunk;
  uint64_t len = (uint64_t)q * chunk + (uint64_t)r;
  if (wapi::has_scheduler() && g::coin(1))
  {
    // a long run: several hundred chunk loads through 2..9 buffers (cursors, sequence numbers and counters that
    // fit a byte for every ordinary case wrap here; a worker count that does not divide 256 then loses its place)
    T = (int)g::oneof<long>({3, 5, 6, 7, 3, 5, 2, 4, 9});
    bpc = 1;
    chunk = 16;
    q = g::range(257, 340);
    r = g::range(0, 16);
    len = (uint64_t)q * 16 + (uint64_t)r;
  }
  c.seti("plen", (long long)len);
  c.set("pseed", std::to_string(g::u64()));
  c.seti("pstyle", 0);
  c.setb("key", expand(g::u64(), 16, 0));
  c.setb("seed", bytes{'s'});
  c.seti("cmode", g::range(0, 5));
  c.seti("hmode", g::range(0, 3));
  c.seti("T", T);
  c.seti("chunk", chunk);
  // the hash buffer's refill size (64-byte units) for the operations that hash the file (enc / dec / ver); one
  // case in three of those has a hashed range (20T + ciphertext) that is an exact multiple of the refill size
  if (op == "enc" || op == "dec" || op == "ver")
  {
    long rf = g::oneof<long>({1, 2, 3, 4, 8});
    c.seti("refill", rf);
    if (g::coin(33))
    {
      // 20T + 16*(blocks) == m * 64 * rf needs 20T = 0 mod 16, i.e. T a multiple of 4
      T = (int)g::oneof<long>({4, 4, 4, 8});
      long m = g::range(1, 5);
      long bytes_ct = m * 64 * rf - 20 * T;
      while (bytes_ct < 16)
        bytes_ct += 64 * rf;
      len = (uint64_t)(bytes_ct - 16 + g::range(0, 16)); // padded length == bytes_ct
      c.seti("T", T);
      c.seti("plen", (long long)len);
    }
  }
  c.set("sched", gen_sched(T, (size_t)(len / 16 + 1)).text());
  if (which == SP_C04 && wapi::has_scheduler() && (op == "enc" || op == "dec" || op == "ver") && g::coin(10))
  {
    // the input becomes unreadable (EIO) from some offset on: anywhere in the file incl. header, chunk boundaries, the end
    long total = (long)len + (op == "enc" ? 0 : 48 + 20 * T + 16);
    long at = g::coin(50) ? g::range(0, total + 1) : (op == "enc" ? 0 : 48 + 20 * T) + chunk * g::range(0, q + 2) + g::oneof<long>({-1, 0, 1, 16});
    c.seti("rderr", at < 0 ? 0 : at);
  }
  else if (which == SP_C04 && wapi::has_scheduler() && (op == "enc" || op == "dec") && g::coin(10))
  {
    // the output device fills up after a generated number of bytes (header, chunk boundaries, anywhere)
    long total = (long)len + 16 + (op == "enc" ? 48 + 20 * T : 0);
    long at = g::coin(50) ? g::range(0, total + 1) : (op == "enc" ? 48 + 20 * T : 0) + chunk * g::range(0, q + 2) + g::oneof<long>({-1, 0, 1, 16});
    c.seti("wrerr", at < 0 ? 0 : at);
    c.seti("outbuf", g::oneof<long>({0, 1, 1, 2})); // unbuffered / small stdio buffers let fwrite see the error
  }
  if (which == SP_C14 && wapi::has_scheduler() && (op == "enc" || op == "rec") && g::coin(6))
  {
    // one read of the input fails in the middle of the run. Half of these cases use the largest chunk the build
    // supports, as the production build does (chunk size == capacity of a buffer): whatever is read beyond a chunk
    // then lands outside the buffer
    if (g::coin(50))
    {
      chunk = wapi::chunk_capacity();
      bpc = chunk / 16;
      T = (int)g::range(2, 5);
      q = g::range(1, 2 * T + 2);
      len = (uint64_t)q * chunk + (uint64_t)g::range(0, chunk);
      c.seti("plen", (long long)len);
      c.seti("T", T);
      c.seti("chunk", chunk);
      c.set("sched", gen_sched(T, (size_t)(len / 16 + 1)).text());
    }
    if (len > 0)
      c.seti("rderr1", g::coin(50) ? g::range(0, (long)len) : (long)(chunk * g::range(0, q + 1) + g::oneof<long>({1, 8, 15, 16, 17, chunk / 2, chunk - 1})) % (long)len);
  }
  if (which == SP_C04 && wapi::has_scheduler() && (op == "enc" || op == "dec" || op == "ver") && g::coin(4))
    c.seti("pipe_in", 1);
  if (which == SP_C04 && (op == "dec" || op == "ver") && g::coin(12))
    c.seti("cut", g::range(1, 16)); // authentic, re-tagged, body not a whole number of blocks // the input stream cannot seek (the file comes through a pipe): the operation may fail, it has to return
  if ((op == "enc" || op == "dec" || op == "ver") && g::coin(10))
    c.seti("fsz0", 1);
  if (wapi::has_scheduler() && g::coin(which == SP_C04 ? 20 : 12))
  {
    c.set("pre", g::oneof<std::string>({"rejdec", "rejver", "garbage", "enc", "dec"}));
    c.seti("preT", g::coin(65) ? T : g::range(1, 6));
  }
  return c;
}

// ------------------------------------------------------------------------------------------------
// systematic enumeration: all schedules with at most `bound` preemptions, depth-first, stateless
static uint64_t enumerate(const Prop &p, Ctx &ctx, Case base, int bound, uint64_t max_execs, bool &complete)
{
  std::vector<uint8_t> prefix;
  uint64_t n = 0;
  complete = false;
  for (;;)
  {
    if (ctx.over_budget())
      return n; // incomplete (reported as capped), never a violation
    base.set("sched", "k3;prefix:" + hex(prefix));
    Verdict v = eval_fixed(p, ctx, base);
    n++;
    if (!v.ok && v.known.empty())
      return n; // a violation ends the search (reported by eval_fixed)
    if (!g_last_trace_valid)
      return n;
    const std::vector<wapi::Decision> &t = g_last_trace;
    std::vector<int> pre(t.size() + 1, 0);
    for (size_t i = 0; i < t.size(); i++)
      pre[i + 1] = pre[i] + ((t[i].cur_runnable && t[i].chosen != 0) ? 1 : 0);
    bool found = false;
    for (size_t ii = t.size(); ii-- > 0;)
    {
      if (t[ii].chosen + 1 >= t[ii].n)
        continue;
      int cost = pre[ii] + (t[ii].cur_runnable ? 1 : 0);
      if (cost > bound)
        continue;
      prefix.resize(ii);
      for (size_t j = 0; j < ii; j++)
        prefix[j] = t[j].chosen;
      prefix.push_back((uint8_t)(t[ii].chosen + 1));
      found = true;
      break;
    }
    if (!found)
    {
      complete = true;
      return n;
    }
    if (n >= max_execs)
      return n;
  }
}

void fixed_sched(Ctx &ctx, SchedProp which, const char *pid)
{
  const Prop *p = find_prop(pid);
  // matrix of tiny configurations: (op, T, blocks per chunk, plaintext length)
  struct Cfg
  {
    std::string op;
    int T, bpc, len, bq, bt; // preemption bound in the quick / thorough tier (-1 = not in that tier)
  };
  std::vector<Cfg> m;
  std::set<std::string> seen;
  auto add = [&](const char *op, int T, int bpc, int len, int bq, int bt) {
    std::string k = std::string(op) + "/" + std::to_string(T) + "/" + std::to_string(bpc) + "/" + std::to_string(len);
    if (seen.insert(k).second)
      m.push_back({op, T, bpc, len, bq, bt});
  };
  for (const char *op : {"enc", "dec", "rec", "recnp"})
  {
    bool np = std::string(op) == "recnp";
    for (int bpc : {1, 2})
    {
      int chunk = 16 * bpc;
      // T = 1: every schedule with <= 2 (3) preemptions, 0..3 chunks, padded length on / next to a chunk boundary
      for (int chunks : {0, 1, 2, 3})
      {
        int len = std::max(0, chunks * chunk - 1);
        add(op, 1, bpc, len, 2, 3);
        add(op, 1, bpc, std::max(0, len - 15), 2, 3);
      }
      // T = 2
      add(op, 2, bpc, 0, 2, 3);
      add(op, 2, bpc, chunk - 1, 2, 3);
      add(op, 2, bpc, chunk - 16, 1, 2);
      add(op, 2, bpc, 2 * chunk - 1, 1, 2);
      add(op, 2, bpc, 3 * chunk - 1, 1, 2);
      add(op, 2, bpc, 4 * chunk - 1, -1, 1);
      // T = 3
      if (!np)
      {
        add(op, 3, bpc, 0, bpc == 1 ? 1 : -1, 2);
        add(op, 3, bpc, chunk - 1, bpc == 1 ? 1 : -1, 2);
      }
      add(op, 3, bpc, 2 * chunk - 1, -1, 1);
      add(op, 3, bpc, 3 * chunk - 1, -1, 1);
      add(op, 3, bpc, 4 * chunk - 1, -1, 1);
    }
    add(op, 4, 1, 15, -1, 1);
    add(op, 4, 1, 63, -1, 1);
  }
  add("ver", 2, 1, 20, 2, 3);
  uint64_t cap = ctx.thorough() ? 400000 : 80000;
  uint64_t i = 0, total = 0, completed = 0, capped = 0;
  // largest trees first so that the shards finish together
  std::stable_sort(m.begin(), m.end(), [&](const Cfg &x, const Cfg &y) {
    auto w = [&](const Cfg &c) { int b = ctx.thorough() ? c.bt : c.bq; return b * 1000 + c.T * 100 + c.len / (16 * c.bpc) * 10; };
    return w(x) > w(y);
  });
  for (auto &cf : m)
  {
    if ((ctx.thorough() ? cf.bt : cf.bq) < 0)
      continue;
    if (!mine(ctx, i++))
      continue;
    Case c;
    c.set("op", cf.op);
    c.seti("plen", cf.len);
    c.set("pseed", "12345");
    c.seti("pstyle", 0);
    c.setb("key", expand(7, 16, 0));
    c.setb("seed", bytes{'s'});
    c.seti("cmode", 1 + (int)(i % 4));
    c.seti("hmode", (int)(i % 3));
    c.seti("T", cf.T);
    c.seti("chunk", 16 * cf.bpc);
    bool complete = false;
    int b = ctx.thorough() ? cf.bt : cf.bq;
    uint64_t n = enumerate(*p, ctx, c, b, cap, complete);
    total += n;
    if (complete)
      completed++;
    else
      capped++;
    ctx.stats.samples.push_back(c.text() + "systematic=all schedules with <= " + std::to_string(b) + " preemptions\nexecutions=" + std::to_string(n) + "\ncomplete=" + (complete ? "1" : "0") + "\n");
    if (ctx.stats.violations || ctx.over_budget())
      break;
  }
  // one very long run under the canonical schedule: 65 540 chunk loads of 16 bytes through 3 (C03: 5) buffers, so
  // that a cursor / sequence number / counter of 16 bits wraps as well (the generated long runs stop at 340 loads)
  if (!ctx.stats.violations && !ctx.over_budget() && which != SP_C04 && mine(ctx, i++))
  {
    Case c;
    c.set("op", which == SP_C14 ? "enc" : "rec");
    c.seti("plen", 16 * 65540 + 7);
    c.set("pseed", "99");
    c.seti("pstyle", 0);
    c.setb("key", expand(9, 16, 0));
    c.setb("seed", bytes{'s'});
    c.seti("cmode", 2);
    c.seti("hmode", 1);
    c.seti("T", which == SP_C14 ? 3 : 5);
    c.seti("chunk", 16);
    c.set("sched", "k0");
    eval_fixed(*p, ctx, c);
  }
  ctx.stats.info["n:systematic_executions"] = std::to_string(total);
  ctx.stats.info["n:systematic_configs_completed"] = std::to_string(completed);
  ctx.stats.info["n:systematic_configs_capped"] = std::to_string(capped);
  ctx.stats.info["systematic_preemption_bound"] = ctx.thorough() ? "3 for T<=2 with <=1 chunk, 2 or 1 for the larger configurations (per-config bound in the samples)" : "2 for T=1 and T=2 with <=1 chunk, 1 for the larger configurations (per-config bound in the samples)";
  (void)which;
}
