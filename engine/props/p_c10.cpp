// C10 five mode stream objects equal NIST SP 800-38A; decryptors invert encryptors.
#include "../harness.h"
#include "../gen.h"
#include <thread>
#include <atomic>

// Several stream objects made by ONE factory, each used by its own thread at the same time - which is how the
// pipeline uses them (prepare_AES makes T objects from one factory, run_multicry gives one to each worker). Each
// thread encrypts its own data and decrypts the result; the outputs are compared with the reference afterwards.
// Under ThreadSanitizer (variant tsan) state shared between the objects shows as a data race whatever the timing.
static Verdict run_c10_threads(const Case &c)
{
  static const char *mn[5] = {"ECB", "CBC", "CTR", "CFB", "OFB"};
  int mode = (int)c.geti("mode"), nthreads = (int)c.geti("n", 4);
  size_t nb = (size_t)c.geti("blocks", 200);
  uint64_t seed = (uint64_t)strtoull(c.get("pseed", "0").c_str(), NULL, 10);
  bytes key = c.getb("key"), iv = c.getb("iv");
  key.resize(16);
  iv.resize(16);
  Verdict v;
  v.nontrivial = true;
  v.weight = (uint64_t)nthreads;
  v.distinct = fnv64(c.text());
  v.classes.push_back("objects_of_one_factory_on_several_threads");
  v.classes.push_back(mn[mode % 5]);
  ChildResult r = run_in_child([&]() {
    std::vector<bytes> in((size_t)nthreads), enc((size_t)nthreads), dec((size_t)nthreads);
    for (int t = 0; t < nthreads; t++)
      in[(size_t)t] = expand(seed * 131 + (uint64_t)t, nb * 16, 0);
    void *f = wapi::factory_new(key.data(), iv.data());
    std::vector<void *> eo, dobj;
    for (int t = 0; t < nthreads; t++)
    {
      eo.push_back(wapi::factory_make(f, true, mode));
      dobj.push_back(wapi::factory_make(f, false, mode));
    }
    std::atomic<int> ready{0};
    std::vector<std::thread> ts;
    for (int t = 0; t < nthreads; t++)
      ts.emplace_back([&, t] {
        ready++;
        while (ready.load() < nthreads)
        {
        }
        bytes e = in[(size_t)t];
        for (size_t i = 0; i < nb && eo[(size_t)t]; i++)
          wapi::mode_run_raw(eo[(size_t)t], e.data() + 16 * i);
        bytes d = e;
        for (size_t i = 0; i < nb && dobj[(size_t)t]; i++)
          wapi::mode_run_raw(dobj[(size_t)t], d.data() + 16 * i);
        enc[(size_t)t] = e;
        dec[(size_t)t] = d;
      });
    for (auto &t : ts)
      t.join();
    std::string msg;
    for (int t = 0; t < nthreads && msg.empty(); t++)
    {
      bytes want = ref::mode_encrypt(mode, key.data(), iv.data(), in[(size_t)t]);
      size_t bad = 0, first = 0;
      for (size_t i = 0; i < nb; i++)
        if (memcmp(want.data() + 16 * i, enc[(size_t)t].data() + 16 * i, 16))
        {
          if (!bad)
            first = i;
          bad++;
        }
      if (bad)
        msg = "thread " + std::to_string(t) + ": " + std::to_string(bad) + " of " + std::to_string(nb) + " encrypted blocks differ from SP 800-38A (first: block " + std::to_string(first) + ")";
      else if (dec[(size_t)t] != in[(size_t)t])
        msg = "thread " + std::to_string(t) + ": the decryptor did not restore the input";
    }
    Ser s;
    s.str(msg);
    return s.b;
  });
  auto ctxt = [&]() { return " [" + std::string(mn[mode % 5]) + ", " + std::to_string(nthreads) + " encryptors and decryptors made by one factory, one per thread, " + std::to_string(nb) + " blocks each, key=" + hex(key) + " iv=" + hex(iv) + "]"; };
  if (r.status == CH_EXIT && r.code == 97)
  {
    size_t p1 = r.detail.find("WARNING:");
    std::string first = r.detail.substr(p1 == std::string::npos ? 0 : p1, 600);
    for (auto &ch : first)
      if (ch == '\n')
        ch = '|';
    if (r.detail.find("/kernel/") == std::string::npos)
    {
      Verdict f = Verdict::fail("harness: ThreadSanitizer report without a frame in wencry: " + first);
      f.infra = true;
      return f;
    }
    Verdict f = Verdict::fail("ThreadSanitizer: stream objects made by one factory share state that is written while another thread uses it: " + first + ctxt());
    f.nontrivial = true;
    return f;
  }
  if (r.status != CH_OK)
    return Verdict::fail("concurrent use of stream objects from one factory did not end normally: " + r.describe() + ctxt());
  De d(r.payload);
  std::string m = d.str();
  if (!m.empty())
  {
    Verdict f = Verdict::fail(m + ctxt());
    f.nontrivial = true;
    return f;
  }
  return v;
}

static Verdict run_c10(const Case &c)
{
  if (c.get("kind", "") == "threads")
    return run_c10_threads(c);
  int mode = (int)c.geti("mode");
  bytes key = c.getb("key"), iv = c.getb("iv");
  key.resize(16);
  iv.resize(16);
  size_t nb = (size_t)c.geti("blocks");
  bytes in = expand((uint64_t)strtoull(c.get("pseed", "0").c_str(), NULL, 10), nb * 16, (int)c.geti("pstyle"));
  Verdict v;
  // data related to the IV / to itself: anything a stream object remembers (the IV copy, the previous block) is
  // then equal to what it is given next
  long shape = c.geti("shape");
  if (shape == 1 || shape == 3)
    for (size_t i = 0; i < nb && i < (size_t)(1 + c.geti("shapen") % 3); i++)
      memcpy(in.data() + 16 * i, iv.data(), 16);
  if (shape == 2 || shape == 3)
    for (size_t i = (shape == 3 ? 4 : 1); i < nb; i++)
      if ((i / 2) % 2 == 0)
        memcpy(in.data() + 16 * i, in.data() + 16 * (i - 1), 16);
  if (shape)
    v.classes.push_back(shape == 1 ? "data_starts_with_the_iv" : shape == 2 ? "runs_of_equal_blocks" : "iv_prefix_and_equal_blocks");
  int aoff = (int)c.geti("aoff") & 15; // address residue of the blocks handed to the stream objects
  if (aoff)
    v.classes.push_back("blocks_at_unaligned_address");
  static const char *mn[5] = {"ECB", "CBC", "CTR", "CFB", "OFB"};
  v.nontrivial = nb >= 2;
  v.classes.push_back(mn[mode % 5]);
  int ff = 0;
  for (int i = 15; i >= 0 && iv[i] == 0xff; i--)
    ff++;
  if (mode == 2 && ff > 0 && nb >= 1)
    v.classes.push_back("ctr_carry_through_" + std::string(ff >= 16 ? "16" : ff >= 8 ? "8-15" : ff >= 2 ? "2-7" : "1") + "_bytes");
  if (nb == 0)
    v.classes.push_back("zero_blocks");
  if (nb > 256)
    v.classes.push_back("blocks>256");
  if (nb > 65536)
    v.classes.push_back("blocks>65536");
  {
    Case id;
    id.seti("m", mode);
    id.seti("ao", aoff);
    id.seti("ps", c.geti("prevshare"));
    id.seti("sh", shape * 4 + c.geti("shapen") % 3);
    id.set("k", hex(key));
    id.set("iv", hex(iv));
    id.seti("nb", (long long)nb);
    id.set("h", std::to_string(fnv64(in.data(), in.size())));
    v.distinct = fnv64(id.text());
  }
  auto bad = [&](const std::string &m) {
    Verdict f = Verdict::fail(std::string(mn[mode % 5]) + ": " + m + " (key=" + hex(key) + " iv=" + hex(iv) + " blocks=" + std::to_string(nb) + ")");
    f.nontrivial = v.nontrivial;
    f.classes = v.classes;
    f.distinct = v.distinct;
    return f;
  };
  // stream objects for a RELATED key (sharing the first `prevshare` bytes) are created and used just before:
  // whatever a factory or a cipher remembers about "the last key" is then almost, but not quite, this key
  long prevshare = c.geti("prevshare");
  if (prevshare > 0 && prevshare < 16)
  {
    bytes k2 = key;
    for (size_t i = (size_t)prevshare; i < 16; i++)
      k2[i] ^= (uint8_t)(0x35 + 7 * i);
    uint8_t blk[16] = {1, 2, 3};
    for (int encdir = 0; encdir < 2; encdir++)
      if (void *h = wapi::mode_new(encdir == 0, mode, k2.data(), iv.data()))
      {
        wapi::mode_run(h, blk, 0);
        wapi::mode_free(h);
      }
    v.classes.push_back("after_streams_for_a_related_key");
  }
  bytes want = ref::mode_encrypt(mode, key.data(), iv.data(), in);
  void *e = wapi::mode_new(true, mode, key.data(), iv.data());
  if (!e)
    return bad("factory returned no encryptor");
  bytes got = in;
  for (size_t i = 0; i < nb; i++)
    wapi::mode_run(e, got.data() + 16 * i, aoff);
  wapi::mode_free(e);
  if (got != want)
  {
    size_t i = 0;
    while (i < got.size() && got[i] == want[i])
      i++;
    return bad("encryptor output differs from SP 800-38A at block " + std::to_string(i / 16));
  }
  void *d = wapi::mode_new(false, mode, key.data(), iv.data());
  if (!d)
    return bad("factory returned no decryptor");
  bytes back = got;
  for (size_t i = 0; i < nb; i++)
    wapi::mode_run(d, back.data() + 16 * i, aoff);
  wapi::mode_free(d);
  if (back != in)
  {
    size_t i = 0;
    while (i < back.size() && back[i] == in[i])
      i++;
    return bad("decryptor does not restore the input at block " + std::to_string(i / 16));
  }
  // decryptor on arbitrary data equals the reference decryption (not only on encryptor output)
  bytes wantd = ref::mode_decrypt(mode, key.data(), iv.data(), in);
  void *d2 = wapi::mode_new(false, mode, key.data(), iv.data());
  bytes gd = in;
  for (size_t i = 0; i < nb; i++)
    wapi::mode_run(d2, gd.data() + 16 * i, aoff);
  wapi::mode_free(d2);
  if (gd != wantd)
    return bad("decryptor output differs from SP 800-38A decryption of arbitrary data");
  // two streams from one factory are independent: interleave them
  if (nb >= 1 && nb <= 64)
  {
    void *f = wapi::factory_new(key.data(), iv.data());
    void *a = wapi::factory_make(f, true, mode), *b = wapi::factory_make(f, true, mode);
    bytes ga = in, gb = in;
    for (size_t i = 0; i < nb; i++)
    {
      wapi::mode_run(a, ga.data() + 16 * i, aoff);
      if (i % 2 == 0)
        wapi::mode_run(b, gb.data() + 16 * (i / 2), aoff);
    }
    wapi::mode_free(a);
    wapi::mode_free(b);
    wapi::factory_free(f);
    if (ga != want)
      return bad("stream A of two streams from one factory is disturbed by stream B");
    size_t nbb = (nb + 1) / 2;
    if (memcmp(gb.data(), want.data(), nbb * 16) != 0)
      return bad("stream B of two streams from one factory is disturbed by stream A");
    v.classes.push_back("two_streams_interleaved");
  }
  // a copied factory: the copy gets its own IV through loadiv(), the source another one afterwards; what the copy makes
  // must be the stream for (key, the copy's IV)
  if (nb >= 1 && nb <= 64)
  {
    bytes iv2 = iv, iv3 = iv;
    for (size_t i = 0; i < 16; i++)
    {
      iv2[i] = (uint8_t)(iv[i] * 5 + 0x21 + i);
      iv3[i] = (uint8_t)(iv[i] ^ 0xa5);
    }
    void *f = wapi::factory_new(key.data(), iv.data());
    void *fc = wapi::factory_copy(f, iv2.data(), iv3.data());
    if (fc)
    {
      void *a = wapi::factory_make(fc, true, mode);
      bytes ga = in;
      for (size_t i = 0; i < nb; i++)
        wapi::mode_run(a, ga.data() + 16 * i, aoff);
      wapi::mode_free(a);
      wapi::factory_free(fc);
      bytes want2 = ref::mode_encrypt(mode, key.data(), iv2.data(), in);
      if (ga != want2)
      {
        wapi::factory_free(f);
        return bad(ga == ref::mode_encrypt(mode, key.data(), iv3.data(), in) ? "an encryptor made by a COPY of a factory uses the IV that was loaded into the source factory afterwards, not the copy's own" : ga == want ? "an encryptor made by a COPY of a factory uses the source factory's original IV, not the one loaded into the copy" : "an encryptor made by a copied factory (own IV loaded with loadiv) differs from SP 800-38A for that IV");
      }
      v.classes.push_back("copied_factory");
    }
    else
      v.classes.push_back("factory_not_copyable");
    wapi::factory_free(f);
  }
  // one factory used for two IVs in turn: an object of a kind, then loadiv() with another IV, then another object of
  // the SAME kind - it must be the stream for the new IV
  if (nb >= 1 && nb <= 64)
  {
    bytes iv4 = iv;
    for (size_t i = 0; i < 16; i++)
      iv4[i] = (uint8_t)(iv[i] * 3 + 0x47 + 5 * i);
    void *f = wapi::factory_new(key.data(), iv.data());
    void *a = wapi::factory_make(f, true, mode);
    bytes ga = in;
    for (size_t i = 0; i < nb && a; i++)
      wapi::mode_run(a, ga.data() + 16 * i, aoff);
    wapi::factory_loadiv(f, iv4.data());
    void *b = wapi::factory_make(f, true, mode);
    bytes gb = in;
    for (size_t i = 0; i < nb && b; i++)
      wapi::mode_run(b, gb.data() + 16 * i, aoff);
    if (a)
      wapi::mode_free(a);
    if (b)
      wapi::mode_free(b);
    wapi::factory_free(f);
    if (a && ga != want)
      return bad("first encryptor of a factory differs from SP 800-38A");
    if (b && gb != ref::mode_encrypt(mode, key.data(), iv4.data(), in))
      return bad(gb == want ? "an encryptor made after loadiv() with another IV still uses the factory's previous IV" : "an encryptor made after loadiv() with another IV differs from SP 800-38A for that IV");
    v.classes.push_back("factory_reused_for_a_second_iv");
  }
  return v;
}

static bytes gen_iv()
{
  bytes iv = g::raw(16);
  if (g::coin(60))
  {
    long j = g::range(0, 17);
    for (int i = 16 - (int)j; i < 16; i++)
      iv[i] = 0xff;
    if (j < 16 && g::coin(50))
      iv[15 - j] = (uint8_t)g::oneof<long>({0xfe, 0x00, 0x7f, 0xfe});
  }
  return iv;
}

static Case gen_c10()
{
  Case c;
  c.seti("mode", g::range(0, 5));
  c.setb("key", g::coin(90) ? g::raw(16) : bytes(16, (uint8_t)g::range(0, 256)));
  c.setb("iv", gen_iv());
  long k = g::range(0, 100);
  long nb = k < 10 ? g::range(0, 3) : k < 90 ? g::range(0, 301) : k < 99 ? 257 + g::range(0, 100) : 4096;
  if (g_ctx.thorough() && k == 99 && g::coin(20))
    nb = 70000;
  c.seti("blocks", nb);
  c.set("pseed", std::to_string(g::u64()));
  c.seti("pstyle", g::range(0, 10) < 7 ? 0 : g::range(1, 4));
  if (g::coin(25))
    c.seti("aoff", g::range(1, 16));
  if (g::coin(20))
    c.seti("prevshare", g::oneof<long>({1, 4, 7, 8, 9, 12, 15}));
  if (g::coin(20))
  {
    c.seti("shape", g::range(1, 4));
    c.seti("shapen", g::range(0, 3));
  }
  return c;
}

static void fixed_c10(Ctx &ctx)
{
  const Prop *p = find_prop("C10");
  uint64_t i = 0;
  // stream objects of one factory on several threads at once (with --mode threads, the ThreadSanitizer run, only these)
  for (int rep = 0; rep < (ctx.mode == "threads" ? 4 : 2); rep++)
    for (int mode = 0; mode < 5; mode++)
    {
      if (!mine(ctx, i++))
        continue;
      Case c;
      c.set("kind", "threads");
      c.seti("mode", mode);
      c.seti("n", rep % 2 ? 2 : 4);
      c.seti("blocks", ctx.mode == "threads" ? 64 : 4000);
      c.setb("key", expand(ctx.seed * 77 + (uint64_t)rep, 16, 0));
      c.setb("iv", expand(ctx.seed * 79 + (uint64_t)mode, 16, 0));
      c.set("pseed", std::to_string(ctx.seed * 1000 + (uint64_t)(rep * 5 + mode)));
      eval_fixed(*p, ctx, c);
    }
  if (ctx.mode == "threads")
    return;
  // SP 800-38A vectors' key/IV, and counter blocks whose last j bytes are 0xFF for every j (carry chains)
  for (int mode = 0; mode < 5; mode++)
    for (int j = 0; j <= 16; j++)
      for (int nb : {1, 2, 3, 300})
      {
        if (!mine(ctx, i++))
          continue;
        bytes iv = unhex("f0f1f2f3f4f5f6f7f8f9fafbfcfdfeff");
        for (int q = 16 - j; q < 16; q++)
          iv[q] = 0xff;
        Case c;
        c.seti("mode", mode);
        c.set("key", "2b7e151628aed2a6abf7158809cf4f3c");
        c.setb("iv", iv);
        c.seti("blocks", nb);
        c.set("pseed", std::to_string(77 + i));
        c.seti("pstyle", 0);
        eval_fixed(*p, ctx, c);
        if (j % 4 == 0)
          for (int shape = 1; shape <= 3; shape++)
          {
            c.seti("shape", shape);
            c.seti("shapen", j / 4);
            eval_fixed(*p, ctx, c);
          }
      }
  if (ctx.thorough())
    for (int mode = 0; mode < 5; mode++)
    {
      if (!mine(ctx, i++))
        continue;
      Case c;
      c.seti("mode", mode);
      c.set("key", "2b7e151628aed2a6abf7158809cf4f3c");
      c.set("iv", "000000000000000000000000fffffff0"); // 2^16+ blocks carry into the 5th byte
      c.seti("blocks", 70000);
      c.set("pseed", "4242");
      c.seti("pstyle", 0);
      eval_fixed(*p, ctx, c);
    }
}

static PropReg reg({"C10", gen_c10, run_c10, fixed_c10, 16000, 800000, 100, "plain"});
