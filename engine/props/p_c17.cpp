// C17 command line: no crash on any option vector; exit 0 iff the operation succeeded.
// Runs the freshly built production binary (guard off, 16 MiB chunks, real threads) as a subprocess.
#include "../harness.h"
#include "../gen.h"
#include "../spawn.h"
#include <unistd.h>
#include <fcntl.h>
#include <sys/wait.h>
#include <sys/stat.h>
#include <signal.h>
#include <time.h>
#include <dirent.h>

static const size_t PROD_CHUNK = 1u << 24;
static const int PROD_T = 4;

static uint64_t g_seq = 0;

// value classes
//  input : none plain wenc tampered missing longplain longwenc
//  output: none ok baddir long
//  key   : none right wrong len23 len25 eq0 eq1 badalpha empty long stray long280
//  cmode / hmode : none or a number (as text)
static Verdict run_c17(const Case &c)
{
  Verdict v;
  std::string modes = c.get("modes");       // e.g. "e", "dv", "" ; upper case L suffix unused
  bool longform = c.geti("longform") != 0;
  std::string in_k = c.get("input", "none"), out_k = c.get("output", "none"), key_k = c.get("key", "none");
  std::string cm = c.get("cmode", ""), hm = c.get("hmode", "");
  bool noecho = c.geti("noecho") != 0;
  std::string dangling = c.get("dangling", "");
  uint64_t order = (uint64_t)strtoull(c.get("order", "0").c_str(), NULL, 10);
  bool asan = c.geti("asan") != 0;
  const char *b1 = getenv("WENCRY_CLI"), *b2 = getenv("WENCRY_CLI_ASAN");
  if (!b1 || !b2)
  {
    Verdict f = Verdict::fail("WENCRY_CLI / WENCRY_CLI_ASAN not set");
    f.infra = true;
    return f;
  }
  std::string bin = asan ? b2 : b1;
  // scratch directory
  const char *sroot = getenv("VERIF_SCRATCH");
  std::string dir = std::string(sroot ? sroot : "/verif/.scratch") + "/c17-" + std::to_string(getpid()) + "-" + std::to_string(g_seq++);
  mkdir((std::string(sroot ? sroot : "/verif/.scratch")).c_str(), 0755);
  mkdir(dir.c_str(), 0755);
  struct Cleaner
  {
    std::string d;
    ~Cleaner() { rm_rf(d); }
  } cleaner{dir};
  // material
  size_t plen = (size_t)c.geti("plen", 50);
  bytes P = expand((uint64_t)strtoull(c.get("pseed", "1").c_str(), NULL, 10), plen, 0);
  bytes key = c.getb("keybytes");
  key.resize(16);
  int fcm = (int)c.geti("file_cmode", 1), fhm = (int)c.geti("file_hmode", 0);
  ref::FileParams fp;
  fp.key = key;
  fp.seed = bytes{'s', 'e', 'e', 'd'};
  fp.cmode = fcm;
  fp.hmode = fhm;
  fp.T = PROD_T;
  fp.chunk = PROD_CHUNK;
  bytes wenc = ref::encrypt_file(P, fp);
  bytes in_bytes;
  std::string in_path;
  bool in_is_wenc = false, in_authentic = false;
  // a relative path of exactly `total` characters that names `name` in the scratch directory
  auto longpath = [&](const std::string &name, size_t total) {
    std::string p;
    while (p.size() + name.size() + 2 <= total)
      p += "./";
    if (p.size() + name.size() < total && !p.empty())
      p.insert(p.size() - 1, "/"); // ".//": one more character, same file
    return p + name;
  };
  size_t plong = (size_t)c.geti("pathlen", 200);
  if (in_k == "plain" || in_k == "longplain")
  {
    in_bytes = P;
    in_path = in_k == "plain" ? "in.dat" : longpath("in.dat", plong);
  }
  else if (in_k == "wenc" || in_k == "longwenc")
  {
    in_bytes = wenc;
    in_is_wenc = true;
    in_authentic = true;
    in_path = in_k == "wenc" ? "in.wenc" : longpath("in.wenc", plong);
  }
  else if (in_k == "tampered")
  {
    in_bytes = wenc;
    long tk = c.geti("tamper", 0);
    if (tk == 0)
      in_bytes[in_bytes.size() - 1 - (plen % 16)] ^= 0x10; // body bit
    else if (tk == 1)
      in_bytes.resize(in_bytes.size() - 1 - (plen % 7)); // truncated
    else if (tk == 2)
      in_bytes[12] ^= 1; // tag bit
    else
      in_bytes[50] ^= 0x80; // IV bit
    in_is_wenc = true;
    in_path = "in.wenc";
  }
  else if (in_k == "missing")
  {
    // names that do not exist; some contain printf conversions (a diagnostic that uses the path as a format
    // string reads its arguments from nowhere)
    static const char *const names[] = {"does-not-exist.dat", "does-not-exist.dat", "100%new.bin", "100%sure.bin", "%s%s%s%s%s%s%s%s", "a%5$s.bin", "%n", "50%_x.dat", "%%", "%1000000c.dat"};
    in_path = names[(size_t)(order % (sizeof names / sizeof names[0]))];
  }
  else if (in_k == "longname")
    in_path = std::string((size_t)c.geti("pathlen", 300) < 256 ? 300 : (size_t)c.geti("pathlen", 300), 'n');
  else if (in_k == "dir")
    in_path = ".";
  else if (in_k == "subdir")
  {
    mkdir((dir + "/sub.d").c_str(), 0755);
    in_path = "sub.d";
  }
  else if (in_k == "devnull")
    in_path = "/dev/null";
  bool odd_input = in_k == "dir" || in_k == "subdir" || in_k == "devnull";
  if (in_k != "none" && in_k != "missing" && in_k != "longname" && !odd_input)
    write_file(dir + "/in" + (in_is_wenc ? ".wenc" : ".dat"), std::string(in_bytes.begin(), in_bytes.end()));
  std::string out_path;
  if (out_k == "ok")
    out_path = "out.bin";
  else if (out_k == "baddir")
    out_path = (order / 16) % 3 == 0 ? "no-such-dir/100%new%s%n.out" : "no-such-dir/out.bin";
  else if (out_k == "long")
    out_path = longpath("out.bin", plong);
  // the output path (given with -o, or the default name of -e) already names a file: longer than what this run
  // writes, or shorter. The tool is documented to write the result there; whatever was there before is not part of it.
  long pre = c.geti("preexist");
  if (pre && modes.size() == 1)
  {
    std::string target;
    if (out_k == "ok")
      target = out_path;
    else if (out_k == "none" && modes == "e" && (in_k == "plain" || in_k == "wenc" || in_k == "tampered"))
      target = in_path + ".wenc";
    if (!target.empty())
    {
      bytes old = expand(0x01d + (uint64_t)pre, pre == 1 ? wenc.size() + P.size() + 300 + (size_t)(order % 5000) : (size_t)(order % 40), 0);
      write_file(dir + "/" + target, std::string(old.begin(), old.end()));
      v.classes.push_back(pre == 1 ? "output_path_holds_a_longer_file" : "output_path_holds_a_shorter_file");
    }
  }
  std::string right = ref::b64_encode(key.data(), 16);
  std::string key_s;
  bool key_valid = false, key_right = false;
  if (key_k == "right")
  {
    key_s = right;
    key_valid = key_right = true;
  }
  else if (key_k == "wrong")
  {
    bytes w = key;
    w[(size_t)(order % 16)] ^= 0x55;
    key_s = ref::b64_encode(w.data(), 16);
    key_valid = true;
  }
  else if (key_k == "len23")
    key_s = right.substr(0, 23);
  else if (key_k == "len25")
    key_s = right + "A";
  else if (key_k == "eq0")
    key_s = right.substr(0, 22) + "AA";
  else if (key_k == "eq1")
    key_s = right.substr(0, 22) + "A=";
  else if (key_k == "stray")
  {
    // 1-3 alphabet characters too many in front of the padding: 25-27 characters, still ending in "=="
    key_s = right.substr(0, 22);
    for (uint64_t n = 1 + order % 3, i = 0; i < n; i++)
      key_s.insert((size_t)((order >> (8 * i + 3)) % 23), 1, "AQgw059+/"[(order >> (4 * i)) % 9]);
    key_s += "==";
  }
  else if (key_k == "long280")
    key_s = right + std::string(256 * (1 + order % 3), 'A'); // 24 + 256k characters starting with a valid key
  else if (key_k == "badalpha")
  {
    key_s = right;
    key_s[(size_t)(order % 22)] = "-_ .*!"[order % 6];
  }
  else if (key_k == "empty")
    key_s = "";
  else if (key_k == "long")
    key_s = std::string(1000, 'A');
  // argv
  std::vector<std::vector<std::string>> groups;
  for (char m : modes)
  {
    std::string s;
    if (longform)
      s = m == 'e' ? "--encode" : m == 'd' ? "--decode" : m == 'v' ? "--verify" : m == 'V' ? "--version" : "--help";
    else
      s = std::string("-") + m;
    groups.push_back({s});
  }
  // a file option given twice: the last one wins (getopt order); the earlier one names a decoy that opens fine, so
  // the expected outcome is that of the command line without it
  long dup = c.geti("dup");
  if (dup)
  {
    write_file(dir + "/decoy.dat", "decoy input, never used");
    v.classes.push_back(std::string("repeated_option") + ((dup & 1) ? "_i" : "") + ((dup & 2) ? "_o" : ""));
  }
  if (in_k != "none")
  {
    if (dup & 1)
      groups.push_back({"-i", "decoy.dat", longform ? "--input" : "-i", in_path});
    else
      groups.push_back({longform ? "--input" : "-i", in_path});
  }
  if (out_k != "none")
  {
    if (dup & 2)
      groups.push_back({"--output", "decoy.out", longform ? "--output" : "-o", out_path});
    else
      groups.push_back({longform ? "--output" : "-o", out_path});
  }
  if (key_k != "none")
    groups.push_back({longform ? "--key" : "-k", key_s});
  if (!cm.empty())
    groups.push_back({"--cmode", cm});
  if (!hm.empty())
    groups.push_back({"--hmode", hm});
  if (noecho)
    groups.push_back({longform ? "--no_echo" : "-n"});
  // shuffle groups deterministically from `order`
  Sm64 rs(order);
  for (size_t i = groups.size(); i > 1; i--)
    std::swap(groups[i - 1], groups[(size_t)rs.below(i)]);
  std::vector<std::string> argv;
  for (auto &gr : groups)
    for (auto &a : gr)
      argv.push_back(a);
  if (!dangling.empty())
    argv.push_back(dangling);
  if (argv.empty())
  {
    // no argument at all starts the interactive prompt, which the property excludes
    v.classes.push_back("empty_argv_outside_domain");
    return v;
  }
  // ---- model of the documented behaviour ----
  auto inrange = [](const std::string &s, int hi) {
    if (s.empty())
      return true;
    char *end;
    long x = strtol(s.c_str(), &end, 10);
    return *end == 0 && x >= 0 && x <= hi;
  };
  bool parse_err = false;
  std::string why;
  auto perr = [&](const char *w) {
    if (!parse_err)
      why = w;
    parse_err = true;
  };
  if (modes.size() != 1)
    perr(modes.empty() ? "no mode" : "two modes");
  if (!dangling.empty())
    perr("option without its value");
  if (in_k == "missing")
    perr("input file cannot be opened");
  if ((in_k == "longplain" || in_k == "longwenc") && in_path.size() >= 4096)
    perr("input path longer than PATH_MAX cannot be opened");
  if (out_k == "long" && out_path.size() >= 4096)
    perr("output path longer than PATH_MAX cannot be created");
  if (in_k == "longname")
    perr("input file name longer than NAME_MAX cannot be opened");
  // default output name = input path + ".wenc": may cross PATH_MAX although the input itself opens
  if (modes == "e" && out_k == "none" && (in_k == "longplain" || in_k == "longwenc") && in_path.size() < 4096 && in_path.size() + 5 >= 4096)
    perr("default output name longer than PATH_MAX cannot be created");
  if (out_k == "baddir")
    perr("output file cannot be created");
  if (key_k != "none" && !key_valid)
    perr("malformed key text");
  if (!inrange(cm, 4))
    perr("cipher mode out of range");
  if (!inrange(hm, 2))
    perr("hash mode out of range");
  char mode = modes.size() == 1 ? modes[0] : '?';
  bool expect_ok = false;
  if (!parse_err)
  {
    if (mode == 'V' || mode == 'h')
      expect_ok = true;
    else if (mode == 'e')
    {
      if (in_k == "none")
        why = "missing input";
      else
        expect_ok = true;
    }
    else if (mode == 'd')
    {
      if (in_k == "none")
        why = "missing input";
      else if (key_k == "none")
        why = "missing key for decryption";
      else if (out_k == "none")
        why = "missing output for decryption";
      else if (!(in_authentic && key_right))
        why = "file not authentic under this key";
      else
        expect_ok = true;
    }
    else if (mode == 'v')
    {
      if (in_k == "none")
        why = "missing input";
      else if (key_k == "none")
        why = "missing key for verification";
      else if (!(in_authentic && key_right))
        why = "file not authentic under this key";
      else
        expect_ok = true;
    }
  }
  // ---- classes ----
  int nparams = (in_k != "none") + (out_k != "none") + (key_k != "none") + !cm.empty() + !hm.empty() + noecho;
  v.nontrivial = modes.size() == 1 && nparams >= 2;
  v.classes.push_back("modes=" + std::to_string(modes.size()) + (modes.size() == 1 ? std::string("/") + mode : ""));
  v.classes.push_back(expect_ok ? "expect_ok" : "expect_fail");
  v.classes.push_back("input=" + in_k);
  v.classes.push_back("key=" + key_k);
  v.classes.push_back("output=" + out_k);
  if (asan)
    v.classes.push_back("asan_binary");
  {
    Case id = c;
    id.set("asan", "");
    id.set("pseed", "");
    id.set("keybytes", "");
    id.set("order", std::to_string(order % 720));
    v.distinct = fnv64(id.text());
  }
  std::string cmdline;
  for (auto &a : argv)
    cmdline += " " + (a.size() > 60 ? a.substr(0, 30) + "...(" + std::to_string(a.size()) + " chars)" : a);
  auto bad = [&](const std::string &m) {
    Verdict f = Verdict::fail(m + " [wencry" + cmdline + "]" + (why.empty() ? "" : " (model: " + why + ")"));
    f.nontrivial = v.nontrivial;
    f.classes = v.classes;
    f.distinct = v.distinct;
    return f;
  };
  uint64_t in_hash = fnv64(in_bytes.data(), in_bytes.size());
  RunRes r = spawn(bin, argv, dir);
  if (!r.spawned || r.code == 126 || r.code == 127)
  {
    Verdict f = Verdict::fail("could not start the CLI binary");
    f.infra = true;
    return f;
  }
  if (r.timed_out)
  {
    // a run of a few milliseconds that exceeds 30 s is repeated twice; only three timeouts in a row count
    // (the statement says the program terminates; a single slow run on a loaded machine is inconclusive)
    int timeouts = 1;
    for (int attempt = 0; attempt < 2 && timeouts == attempt + 1; attempt++)
    {
      RunRes r2 = spawn(bin, argv, dir);
      if (r2.timed_out)
        timeouts++;
    }
    if (timeouts == 3)
    {
      Verdict f = bad("did not terminate within 30 s in three consecutive attempts");
      f.slow = true;
      return f;
    }
    v.classes.push_back("watchdog_inconclusive");
    v.nontrivial = false;
    return v;
  }
  if (r.signaled)
    return bad("killed by signal " + std::to_string(r.sig) + (r.sig == SIGSEGV ? " (SIGSEGV)" : r.sig == SIGABRT ? " (SIGABRT)" : ""));
  if (r.err.find("AddressSanitizer") != std::string::npos || r.err.find("runtime error:") != std::string::npos || r.code == 99 || r.code == 98)
    return bad("sanitizer report: " + r.err.substr(0, 300));
  if (odd_input)
  {
    // a directory or device as input: whether "encrypting" it counts as success is not stated, so only the
    // first clause is judged here - the program terminates without crashing
    v.classes.push_back("odd_input_no_crash_clause_only");
    return v;
  }
  bool ok = r.code == 0;
  if (ok != expect_ok)
    return bad(std::string("exit status ") + std::to_string(r.code) + " but the operation " + (expect_ok ? "should have succeeded" : "did not succeed"));
  // input file untouched
  if (in_k != "none" && in_k != "missing" && in_k != "longname")
  {
    std::string now = read_file(dir + "/in" + (in_is_wenc ? ".wenc" : ".dat"));
    if (fnv64(now.data(), now.size()) != in_hash || now.size() != in_bytes.size())
      return bad("the input file was modified");
  }
  if (!ok)
  {
    if (!noecho)
    {
      bool text = false;
      for (char ch : r.out + r.err)
        if (!isspace((unsigned char)ch))
          text = true;
      if (!text)
        return bad("failed without printing any diagnostic");
    }
    return v;
  }
  // ---- artefacts of a successful run ----
  if (mode == 'e')
  {
    std::string op = out_k == "none" ? in_path + ".wenc" : out_path;
    std::string of = read_rel(dir, op);
    bytes ob(of.begin(), of.end());
    if (ob.empty())
      return bad("encryption reported success but " + (op.size() > 40 ? std::string("the output file") : op) + " is missing or empty");
    int want_cm = cm.empty() ? 0 : atoi(cm.c_str()), want_hm = hm.empty() ? 0 : atoi(hm.c_str());
    if (ob.size() < 10 || ob[8] != want_cm || ob[9] != want_hm)
      return bad("mode bytes of the written file are " + std::to_string(ob.size() > 9 ? ob[8] : -1) + "/" + std::to_string(ob.size() > 9 ? ob[9] : -1) + ", requested " + std::to_string(want_cm) + "/" + std::to_string(want_hm));
    bytes k = key;
    if (key_k == "none")
    {
      size_t p = r.out.find("Key is:");
      if (p == std::string::npos)
        return bad("no 'Key is:' line printed for a generated key");
      size_t e = r.out.find('\n', p);
      std::string line = r.out.substr(p + 7, e == std::string::npos ? std::string::npos : e - p - 7);
      size_t a = line.find_last_of(' ');
      std::string ks = line.substr(a == std::string::npos ? 0 : a + 1);
      while (!ks.empty() && (ks.back() == '\r' || ks.back() == ' '))
        ks.pop_back();
      if (!ref::b64_decode_lenient_bits(ks, k) || k.size() != 16)
        return bad("printed key \"" + ks + "\" is not the base64 form of 16 bytes");
    }
    ref::Parsed pr = ref::parse_file(ob, k, PROD_T, PROD_CHUNK);
    if (pr.status != 0 || pr.plain != in_bytes)
      return bad("the written file does not decrypt (reference, key " + std::string(key_k == "none" ? "as printed" : "as given") + ") to the input: reference status " + std::to_string(pr.status));
    v.classes.push_back("encrypt_output_verified");
    if (c.geti("followup"))
    {
      // the statement's own round trip: `-d` with the key that was given / printed restores the input
      std::string kstr = ref::b64_encode(k.data(), 16);
      RunRes r2 = spawn(bin, {"-d", "-i", op, "-o", "roundtrip.bin", "-k", kstr}, dir);
      if (r2.timed_out)
        return v;
      if (r2.signaled || r2.code != 0)
        return bad("`-d` of the file just written with the " + std::string(key_k == "none" ? "printed" : "given") + " key failed (" + (r2.signaled ? "signal " + std::to_string(r2.sig) : "exit " + std::to_string(r2.code)) + ")");
      std::string back = read_file(dir + "/roundtrip.bin");
      if (bytes(back.begin(), back.end()) != in_bytes)
        return bad("`-d` with the " + std::string(key_k == "none" ? "printed" : "given") + " key does not restore the input file");
      v.classes.push_back("cli_roundtrip_verified");
    }
  }
  else if (mode == 'd')
  {
    std::string of = read_rel(dir, out_path);
    if (bytes(of.begin(), of.end()) != P)
      return bad("decryption reported success but the output differs from the plaintext");
    v.classes.push_back("decrypt_output_verified");
  }
  return v;
}

static Case gen_c17()
{
  Case c;
  long mk = g::range(0, 100);
  std::string modes;
  const char *ms = "edvVh";
  if (mk < 6)
    modes = "";
  else if (mk < 14)
  {
    modes += ms[g::range(0, 5)];
    modes += ms[g::range(0, 5)];
  }
  else
  {
    long w = g::range(0, 100);
    modes += w < 40 ? 'e' : w < 70 ? 'd' : w < 92 ? 'v' : w < 96 ? 'V' : 'h';
  }
  c.set("modes", modes);
  c.seti("longform", g::coin(25) ? 1 : 0);
  bool info_mode = modes.size() == 1 && (modes[0] == 'V' || modes[0] == 'h');
  char m = modes.size() == 1 ? modes[0] : 'e';
  // input
  {
    long k = g::range(0, 100);
    std::string in;
    if (m == 'e' || info_mode)
      in = k < 8 ? "none" : k < 60 ? "plain" : k < 70 ? "wenc" : k < 80 ? "missing" : k < 95 ? "longplain" : "tampered";
    else
      in = k < 8 ? "none" : k < 50 ? "wenc" : k < 70 ? "tampered" : k < 78 ? "missing" : k < 88 ? "longwenc" : "plain";
    if (info_mode && (in == "missing"))
      in = "none";
    if (g::coin(6))
      in = g::oneof<const char *>({"dir", "subdir", "devnull"});
    else if (g::coin(4))
      in = "longname";
    c.set("input", in);
  }
  {
    long k = g::range(0, 100);
    std::string o = k < 35 ? "none" : k < 80 ? "ok" : k < 90 ? "baddir" : "long";
    if (info_mode && o == "baddir")
      o = "ok";
    c.set("output", o);
  }
  {
    long k = g::range(0, 100);
    std::string kk;
    if (m == 'e')
      kk = k < 50 ? "none" : k < 75 ? "right" : "";
    else
      kk = k < 10 ? "none" : k < 55 ? "right" : k < 70 ? "wrong" : "";
    if (kk.empty())
      kk = g::oneof<const char *>({"len23", "len25", "eq0", "eq1", "badalpha", "empty", "long", "stray", "stray", "long280"});
    if (info_mode && kk != "none" && kk != "right" && kk != "wrong")
      kk = "none";
    c.set("key", kk);
  }
  auto modeval = [&](int hi, std::initializer_list<long> oor) -> std::string {
    long k = g::range(0, 100);
    if (k < 45)
      return "";
    if (k < 80 || info_mode)
      return std::to_string(g::range(0, hi + 1));
    if (k < 90)
    {
      std::vector<long> v(oor);
      return std::to_string(v[(size_t)g::range(0, (long)v.size())]);
    }
    if (k < 96)
      return std::to_string(g::oneof<long>({256, 257, -1, 128, 255, 260, 512, 65536, -256}));
    // numbers that do not fit an int / a long: a conversion that wraps (2^32 + m) or saturates or throws must still
    // end in "out of range", never in mode m and never in a crash
    return g::oneof<const char *>({"4294967296", "4294967297", "4294967298", "4294967300", "-4294967295", "-4294967294", "2147483648", "-2147483649", "8589934593",
                                   "9223372036854775807", "9223372036854775808", "-9223372036854775808", "-9223372036854775809", "18446744073709551616", "18446744073709551617",
                                   "99999999999999999999", "340282366920938463463374607431768211457", "1000000000000000000000000000000000000000000000000000000000000000000000000001"});
  };
  c.set("cmode", modeval(4, {5, 6, 99, 127, -2, -5}));
  c.set("hmode", modeval(2, {3, 7, 100, -3}));
  c.seti("noecho", g::coin(25) ? 1 : 0);
  if (g::coin(6) && !info_mode)
    c.set("dangling", g::oneof<const char *>({"-i", "-o", "-k", "--cmode", "--hmode"}));
  c.set("order", std::to_string(g::u64()));
  c.seti("plen", g::oneof<long>({0, 1, 15, 16, 17, 50, 100, 1000}));
  c.set("pseed", std::to_string(g::u64() % 100000));
  c.setb("keybytes", g::raw(16));
  c.seti("file_cmode", g::range(0, 5));
  c.seti("file_hmode", g::range(0, 3));
  c.seti("tamper", g::range(0, 4));
  c.seti("pathlen", g::coin(50) ? g::oneof<long>({123, 124, 130, 140, 200, 300, 1000, 3000}) : g::coin(60) ? g::range(245, 265) : g::oneof<long>({127, 128, 129, 510, 511, 512, 513, 1023, 1024, 1025, 2047, 2048, 4000, 4080, 4090, 4095, 4096, 4097, 4100, 4200, 5000, 8192, 20000, 100000}));
  c.seti("asan", g::coin(25) ? 1 : 0);
  c.seti("followup", g::coin(40) ? 1 : 0);
  if (g::coin(12))
    c.seti("dup", g::range(1, 4));
  if (g::coin(15))
    c.seti("preexist", g::range(1, 3));
  return c;
}

static void fixed_c17(Ctx &ctx)
{
  const Prop *p = find_prop("C17");
  uint64_t i = 0;
  auto mk = [&](std::initializer_list<std::pair<const char *, const char *>> kv) {
    if (!mine(ctx, i++))
      return;
    Case c;
    c.set("modes", "e");
    c.set("input", "plain");
    c.set("output", "none");
    c.set("key", "none");
    c.set("order", "0");
    c.seti("plen", 100);
    c.set("pseed", "7");
    c.setb("keybytes", expand(3, 16, 0));
    c.seti("file_cmode", 1);
    c.seti("file_hmode", 0);
    c.seti("pathlen", 200);
    c.seti("followup", 1);
    for (auto &p2 : kv)
      c.set(p2.first, p2.second);
    eval_fixed(*p, ctx, c);
    c.seti("asan", 1);
    eval_fixed(*p, ctx, c);
  };
  // the documented default flow and the cases the statement names explicitly
  mk({});                                                             // -e -i F  -> F.wenc + printed key
  mk({{"modes", ""}});                                                // no mode
  mk({{"modes", "ed"}});                                              // two modes
  mk({{"input", "none"}});                                            // missing input
  mk({{"modes", "d"}, {"input", "wenc"}, {"key", "right"}, {"output", "ok"}});
  mk({{"modes", "d"}, {"input", "wenc"}, {"key", "none"}, {"output", "ok"}});   // missing key
  mk({{"modes", "d"}, {"input", "wenc"}, {"key", "right"}, {"output", "none"}}); // missing output
  mk({{"modes", "v"}, {"input", "wenc"}, {"key", "right"}});
  mk({{"modes", "v"}, {"input", "wenc"}, {"key", "none"}});
  mk({{"modes", "v"}, {"input", "wenc"}, {"key", "wrong"}});
  mk({{"modes", "v"}, {"input", "tampered"}, {"key", "right"}});
  for (const char *k : {"len23", "len25", "eq0", "eq1", "badalpha", "empty", "long", "stray", "long280"})
    mk({{"modes", "v"}, {"input", "wenc"}, {"key", k}});
  for (const char *cmv : {"5", "99", "-2", "256", "-1", "128", "255", "260", "4294967296", "4294967297", "-4294967295", "2147483648", "9223372036854775808", "18446744073709551617", "99999999999999999999999999999999999999999"})
    mk({{"cmode", cmv}});
  for (const char *hmv : {"3", "100", "-3", "256", "-1", "255", "4294967296", "4294967298", "-4294967294", "18446744073709551618", "99999999999999999999999999999999999999999"})
    mk({{"hmode", hmv}});
  for (const char *pl : {"120", "122", "123", "124", "127", "128", "129", "130", "200", "245", "246", "247", "248", "249", "250", "251", "252", "253", "254", "255", "256", "257", "258", "259", "260", "261", "511", "512", "513", "1000", "1023", "1024", "1025", "3000"})
  {
    mk({{"input", "longplain"}, {"pathlen", pl}});
    mk({{"modes", "d"}, {"input", "longwenc"}, {"key", "right"}, {"output", "long"}, {"pathlen", pl}});
  }
  for (const char *pl : {"4080", "4090", "4095", "4096", "4097", "4110", "4130", "4200", "5000", "8192", "20000", "100000"})
  {
    mk({{"input", "longplain"}, {"pathlen", pl}});
    mk({{"input", "longplain"}, {"pathlen", pl}, {"output", "ok"}});
    mk({{"modes", "v"}, {"input", "longwenc"}, {"key", "right"}, {"pathlen", pl}});
    mk({{"input", "plain"}, {"output", "long"}, {"pathlen", pl}});
    mk({{"modes", "d"}, {"input", "wenc"}, {"key", "right"}, {"output", "long"}, {"pathlen", pl}});
  }
  for (const char *pl : {"256", "300", "1000", "5000"})
    mk({{"input", "longname"}, {"pathlen", pl}});
  for (int cm = 0; cm < 5; cm++)
    for (int hm = 0; hm < 3; hm++)
    {
      std::string a = std::to_string(cm), b = std::to_string(hm);
      mk({{"cmode", a.c_str()}, {"hmode", b.c_str()}, {"key", "right"}, {"output", "ok"}});
      mk({{"modes", "d"}, {"input", "wenc"}, {"key", "right"}, {"output", "ok"}, {"file_cmode", a.c_str()}, {"file_hmode", b.c_str()}});
    }
  for (const char *m2 : {"e", "d", "v"})
    for (const char *odd : {"dir", "subdir", "devnull"})
      mk({{"modes", m2}, {"input", odd}, {"key", "right"}, {"output", "ok"}});
  mk({{"modes", "V"}, {"input", "none"}});
  mk({{"modes", "h"}, {"input", "none"}});
  // the output path already names a longer / shorter file
  for (const char *pe : {"1", "2"})
  {
    mk({{"preexist", pe}});
    mk({{"preexist", pe}, {"output", "ok"}, {"key", "right"}});
    mk({{"modes", "d"}, {"input", "wenc"}, {"key", "right"}, {"output", "ok"}, {"preexist", pe}});
    mk({{"modes", "d"}, {"input", "wenc"}, {"key", "right"}, {"output", "ok"}, {"preexist", pe}, {"plen", "0"}});
  }
}

static PropReg reg({"C17", gen_c17, run_c17, fixed_c17, 8000, 300000, 100, "plain"});
