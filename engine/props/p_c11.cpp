// C11 any byte string as input file is handled cleanly: failure, no crash, no output.
#include "../tamper.h"

static const uint8_t MAGIC[8] = {0xC3, 0xA5, 0xC3, 0xA5, 0xC3, 0xA5, 0xC3, 0xA5};

std::string c11_judge(const bytes &f, const bytes &key, int T, const DV &r)
{
  bool auth = ref_authentic(f, key);
  long body = (long)f.size() - 48 - 20L * T;
  if (r.st != CH_OK)
    return "verify/decrypt did not terminate normally: " + r.detail;
  if ((r.vret || r.dret) && !auth)
    return std::string(r.vret ? "verification" : "decryption") + " reported success although the file is not authentic for this key";
  if (!r.dret && (r.d_writes > 0 || !r.dout.empty()))
    return "a failing decryption wrote " + std::to_string(r.d_written_bytes) + " bytes to its output";
  if (r.dret && (long)r.d_written_bytes > std::max(0L, body))
    return "decryption wrote " + std::to_string(r.d_written_bytes) + " bytes, the ciphertext body holds only " + std::to_string(std::max(0L, body));
  return "";
}

static Verdict run_c11(const Case &c)
{
  Verdict v;
  std::string kind = c.get("kind", "raw");
  int T = (int)c.geti("T", 2), chunk = (int)c.geti("chunk", 32);
  bytes key = c.getb("key");
  key.resize(16);
  std::vector<bytes> files;
  std::vector<std::string> labels;
  bytes base;
  bytes warm; // an authentic file that goes through the same process first (whatever it leaves behind must not help the next input)
  if (kind == "file")
  {
    if (c.has("warm"))
      warm = c.getb("warm");
    files.push_back(c.getb("file"));
    labels.push_back("explicit file");
  }
  else if (kind == "raw")
  {
    bytes f = expand((uint64_t)strtoull(c.get("rawseed", "0").c_str(), NULL, 10), (size_t)c.geti("rawlen"), (int)c.geti("rawstyle"));
    int magic = (int)c.geti("magic");
    if (magic >= 1)
      for (size_t i = 0; i < 8 && i < f.size(); i++)
        f[i] = MAGIC[i];
    if (magic >= 2 && f.size() > 9)
    {
      f[8] %= 5;
      f[9] %= 3;
    }
    files.push_back(f);
    labels.push_back("raw bytes");
  }
  else
  {
    EncCase e = enc_from(c);
    T = e.T;
    chunk = e.chunk;
    base = base_file(e, c.geti("toolbase") != 0);
    if (base.size() < 84)
    {
      // the tool could not produce the base file: another property's business
      v.classes.push_back("toolbase_unavailable");
      return v;
    }
    if (c.geti("toolbase"))
      v.classes.push_back("base_written_by_the_tool");
    if (c.get("keykind", "right") == "right")
      key = e.key;
    if (kind == "truncs")
    {
      for (size_t n = 0; n < base.size(); n++)
      {
        files.push_back(bytes(base.begin(), base.begin() + n));
        labels.push_back("truncated to " + std::to_string(n));
      }
    }
    else if (kind == "hdr")
    {
      for (int off : {8, 9})
        for (int val = 0; val < 256; val++)
        {
          bytes f = base;
          f[off] = (uint8_t)val;
          files.push_back(f);
          labels.push_back("byte " + std::to_string(off) + " = " + std::to_string(val));
        }
      // both mode bytes altered together, and the tag padding
      for (int val : {5, 6, 99, 127, 128, 255})
      {
        bytes f = base;
        f[8] = f[9] = (uint8_t)val;
        files.push_back(f);
        labels.push_back("bytes 8,9 = " + std::to_string(val));
      }
    }
    else // edits
    {
      files.push_back(apply_edits(base, c.get("edits")));
      labels.push_back("edits " + c.get("edits"));
    }
  }
  if (kind != "file" && kind != "raw" && c.geti("warmfirst") && c.get("keykind", "right") == "right")
    warm = base;
  if (!warm.empty())
  {
    files.insert(files.begin(), warm);
    labels.insert(labels.begin(), "the authentic file itself");
    v.classes.push_back("authentic_file_first_in_the_same_process");
  }
  // ... and the authentic file once more at the END of the batch: whatever the refused inputs before it leave behind
  // in the process must not keep it from being handled cleanly
  bool tail_auth = kind != "file" && kind != "raw" && !base.empty() && c.get("keykind", "right") == "right" && files.size() >= 2;
  if (tail_auth)
  {
    files.push_back(base);
    labels.push_back("the authentic file again, after the other inputs");
  }
  v.classes.push_back("kind=" + kind);
  v.weight = files.size();
  std::string batch_only;
  std::vector<DV> res = batch_dv(files, {key}, T, chunk, (int)c.geti("refill", 0), &batch_only);
  bool watchdog = batch_only.find("watchdog") != std::string::npos; // a wall-clock timeout of the batch child is not a verdict
  if (kind == "file" && !warm.empty() && !batch_only.empty() && !watchdog)
  {
    // replay of a pair found below: `warm` goes first, then the file; each is handled cleanly alone, the pair is not
    Verdict fl = Verdict::fail("verify/decrypt of the second input do not terminate normally (" + batch_only + ") when the same process has handled the first input before it; each of the two is handled cleanly alone [" + std::to_string(files.back().size()) + "-byte input after a " + std::to_string(warm.size()) + "-byte input, T=" + std::to_string(T) + "]");
    fl.nontrivial = true;
    fl.classes = v.classes;
    return fl;
  }
  if (tail_auth && !batch_only.empty() && !watchdog)
  {
    // every input is handled cleanly alone, the sequence is not: look for a pair (one earlier input, then the
    // authentic file) that shows it, each member of which passes alone
    for (size_t k = 0; k + 1 < files.size() && k < 6; k++)
    {
      if (files[k] == base)
        continue;
      std::string bo2;
      std::vector<DV> pr = batch_dv({files[k], base}, {key}, T, chunk, (int)c.geti("refill", 0), &bo2);
      if (!bo2.empty() && bo2.find("watchdog") == std::string::npos)
      {
        Verdict fl = Verdict::fail("verify/decrypt of an authentic file do not terminate normally (" + bo2 + ") when the same process has handled this input before it: " + labels[k] + " (" + std::to_string(files[k].size()) + " bytes); each of the two is handled cleanly alone [" + std::to_string(base.size()) + "-byte authentic file, T=" + std::to_string(T) + "]");
        fl.nontrivial = true;
        fl.classes = v.classes;
        Case rc;
        rc.set("kind", "file");
        rc.setb("file", base);
        rc.setb("warm", files[k]);
        rc.setb("key", key);
        rc.seti("T", T);
        rc.seti("chunk", chunk);
        rc.seti("refill", c.geti("refill", 0));
        fl.replay_text = rc.text();
        return fl;
      }
    }
    v.classes.push_back("batch_only_failure_not_attributed");
  }
  if (!warm.empty() && files.size() > 1 && res[0].evaluated && res[0].st != CH_OK)
  {
    // the authentic file did not get through normally (another property's subject): judge the rest without it
    files.erase(files.begin());
    labels.erase(labels.begin());
    warm.clear();
    res = batch_dv(files, {key}, T, chunk, (int)c.geti("refill", 0));
  }
  size_t passing_magic = 0;
  for (size_t i = 0; i < files.size(); i++)
  {
    const bytes &f = files[i];
    const DV &r = res[i];
    if (!r.evaluated)
      continue;
    bool magic_ok = f.size() >= 8 && memcmp(f.data(), MAGIC, 8) == 0;
    if (magic_ok)
    {
      passing_magic++;
      v.more_distinct.push_back(fnv64(f.data(), f.size(), fnv64(hex(key))));
    }
    if (r.st == CH_TIMEOUT)
      continue;
    std::string m = c11_judge(f, key, T, r);
    if (r.st == CH_OK)
    {
      if (r.vret || r.dret)
        v.classes.push_back("accepted");
      else
        v.classes.push_back("rejected");
    }
    if (!m.empty())
    {
      Verdict fl = Verdict::fail(m + " [" + labels[i] + ", " + std::to_string(f.size()) + "-byte input, T=" + std::to_string(T) + "]");
      fl.nontrivial = true;
      fl.slow = r.detail.find("again within 180 s") != std::string::npos; // judged by a watchdog: minutes per evaluation, do not shrink
      fl.classes = v.classes;
      Case rc;
      rc.set("kind", "file");
      rc.setb("file", f);
      if (!warm.empty() && i > 0)
        rc.setb("warm", warm);
      rc.setb("key", key);
      rc.seti("T", T);
      rc.seti("chunk", chunk);
      rc.seti("refill", c.geti("refill", 0)); // the hash buffer's refill size is part of the case
      fl.replay_text = rc.text();
      return fl;
    }
  }
  v.nontrivial = passing_magic > 0;
  if (passing_magic == 0)
    v.classes.push_back("fails_magic_check");
  return v;
}

static void gen_base(Case &c)
{
  GenOpts o;
  o.maxT = 4;
  o.chunks = {16, 32, 64};
  o.max_len = 400;
  o.schedules = false;
  gen_enc(c, o);
}

static std::string gen_edits(size_t flen, int T, int hl)
{
  // edits anywhere, with a bias to field boundaries
  std::vector<long> marks = {0, 7, 8, 9, 10, 10 + hl - 1, 10 + hl, 47, 48, 48 + 20, 48 + 20 * T - 1, 48 + 20 * T, (long)flen - 16, (long)flen - 1, (long)flen};
  std::string s;
  long n = g::range(1, 4);
  for (long i = 0; i < n; i++)
  {
    long off = g::coin(60) ? marks[(size_t)g::range(0, (long)marks.size())] : g::range(0, (long)flen + 1);
    if (off < 0)
      off = 0;
    if (off > (long)flen)
      off = (long)flen;
    long k = g::range(0, 7);
    if (!s.empty())
      s += ";";
    switch (k)
    {
    case 0:
      s += "X:" + std::to_string(std::min<long>(off, (long)flen - 1)) + ":" + std::to_string(1 << g::range(0, 8));
      break;
    case 1:
      s += "S:" + std::to_string(off) + ":" + hex(g::raw((size_t)g::range(1, 20)));
      break;
    case 2:
      s += "I:" + std::to_string(off) + ":" + hex(g::raw((size_t)g::range(1, 33)));
      break;
    case 3:
      s += "D:" + std::to_string(off) + ":" + std::to_string(g::oneof<long>({1, 2, 15, 16, 17, 20, 32}));
      break;
    case 4:
      s += "T:" + std::to_string(off);
      break;
    case 5:
      s += "A:" + hex(g::raw((size_t)g::oneof<long>({1, 15, 16, 17, 32, 64})));
      break;
    default:
      s += "S:8:" + hex(bytes{(uint8_t)g::range(0, 256), (uint8_t)g::range(0, 256)});
    }
  }
  return s;
}

static Case gen_c11()
{
  Case c;
  long k = g::range(0, 100);
  if (k < 30)
  {
    c.set("kind", "raw");
    long len = g::coin(50) ? g::range(0, 100) : g::range(0, 601);
    c.seti("rawlen", len);
    c.set("rawseed", std::to_string(g::u64()));
    c.seti("rawstyle", g::range(0, 10) < 8 ? 0 : 1);
    c.seti("magic", g::range(0, 3));
    c.setb("key", gen_key());
    c.seti("T", g::range(1, 5));
    c.seti("chunk", g::oneof<long>({16, 32, 64}));
    return c;
  }
  gen_base(c);
  c.seti("toolbase", g::coin(50) ? 1 : 0);
  c.seti("warmfirst", g::coin(50) ? 1 : 0);
  c.set("keykind", g::coin(80) ? "right" : "wrong");
  if (c.get("keykind") == "wrong")
    c.setb("key", g::raw(16));
  if (k < 36)
    c.set("kind", "truncs");
  else if (k < 42)
    c.set("kind", "hdr");
  else
  {
    c.set("kind", "edits");
    size_t flen = 48 + 20 * (size_t)c.geti("T") + 16 * ((size_t)c.geti("plen") / 16 + 1);
    c.set("edits", gen_edits(flen, (int)c.geti("T"), ref::Hash::hlen((int)c.geti("hmode"))));
  }
  return c;
}

static void fixed_c11(Ctx &ctx)
{
  const Prop *p = find_prop("C11");
  uint64_t i = 0;
  if (ctx.mode == "corpus")
  {
    // seed corpus of the libFuzzer target: [T-1][key/chunk selector] + a valid file, every (cmode,hmode), T 1..4
    if (ctx.shard != 0)
      return;
    int n = 0;
    for (int cm = 0; cm < 5; cm++)
      for (int hm = 0; hm < 3; hm++)
        for (int T = 1; T <= 4; T++)
        {
          ref::FileParams fp;
          fp.key = bytes(FUZZ_KEYA, FUZZ_KEYA + 16);
          fp.seed = bytes{'f', 'z'};
          fp.cmode = cm;
          fp.hmode = hm;
          fp.T = T;
          fp.chunk = 32;
          bytes P = expand(cm * 100 + hm * 10 + T, (size_t)(5 + 23 * T + cm), 0);
          bytes f = ref::encrypt_file(P, fp);
          std::string data;
          data += (char)(T - 1);
          data += (char)0;
          data.append(f.begin(), f.end());
          write_file(ctx.outdir + "/seed" + std::to_string(n++), data);
        }
    return;
  }
  // tiny inputs: every length 0..12 of zero bytes / magic prefix; header-only files
  for (int len = 0; len <= 80; len++)
    for (int magic : {0, 1, 2})
    {
      if (!mine(ctx, i++))
        continue;
      Case c;
      c.set("kind", "raw");
      c.seti("rawlen", len);
      c.set("rawseed", std::to_string(len * 3 + magic));
      c.seti("rawstyle", magic == 0 ? 1 : 0);
      c.seti("magic", magic);
      c.setb("key", expand(5, 16, 0));
      c.seti("T", 1 + len % 4);
      c.seti("chunk", 16);
      eval_fixed(*p, ctx, c);
    }
  // exhaustive truncations and header sweeps of one file per (cmode, hmode)
  for (int cm = 0; cm < 5; cm++)
    for (int hm = 0; hm < 3; hm++)
      for (const char *kind : {"truncs", "hdr"})
      {
        if (!mine(ctx, i++))
          continue;
        Case c;
        c.set("kind", kind);
        c.seti("plen", 37 + 16 * cm);
        c.set("pseed", std::to_string(cm * 10 + hm));
        c.seti("pstyle", 0);
        c.setb("key", expand(cm * 3 + hm + 1, 16, 0));
        c.setb("seed", bytes{'i', 'v'});
        c.seti("cmode", cm);
        c.seti("hmode", hm);
        c.seti("T", 1 + (cm + hm) % 3);
        c.seti("chunk", 32);
        c.seti("refill", 1 + (cm + hm) % 3);
        c.seti("toolbase", (cm + hm) % 2);
        c.set("keykind", "right");
        eval_fixed(*p, ctx, c);
      }
  ctx.stats.info["exhaustive_per_base_file"] = "every truncation length and all 256 values of bytes 8 and 9 for one file per (cmode,hmode)";
}

static PropReg reg({"C11", gen_c11, run_c11, fixed_c11, 24000, 600000, 100, "sched"});
