// C07 SHA-1, MD5 and SHA-256 digests are the standard ones for every message.
#include "../harness.h"
#include "../gen.h"

static bytes ref_synth(int alg, uint64_t len, uint32_t pat)
{
  ref::Hash h(alg);
  static uint8_t buf[1 << 16];
  uint64_t off = 0;
  while (off < len)
  {
    size_t n = (size_t)std::min<uint64_t>(sizeof buf, len - off);
    for (size_t i = 0; i < n; i++)
      buf[i] = wapi::synth_byte(off + i, pat);
    h.update(buf, n);
    off += n;
  }
  return h.final();
}

static Verdict run_c07(const Case &c)
{
  int alg = (int)c.geti("alg");
  std::string entry = c.get("entry", "string");
  uint64_t len = (uint64_t)strtoull(c.get("len", "0").c_str(), NULL, 10);
  Verdict v;
  v.nontrivial = len >= 56;
  static const char *an[3] = {"sha1", "md5", "sha256"};
  v.classes.push_back(std::string(an[alg % 3]) + "/" + entry);
  v.classes.push_back(len % 64 >= 56 ? "len_mod64>=56" : len % 64 == 0 ? "len_mod64==0" : len % 64 == 55 ? "len_mod64==55" : "len_mod64_other");
  if (len >= (1ull << 29))
    v.classes.push_back("crosses_2^32_bits");
  if (len >= (1ull << 32))
    v.classes.push_back("len>=2^32_bytes");
  bytes got, want;
  if (entry == "synth" || entry == "bigstring")
  {
    uint32_t pat = (uint32_t)c.geti("pat");
    got = entry == "synth" ? wapi::hash_synth(alg, len, pat) : wapi::hash_string_synth(alg, len, pat);
    if (got.empty())
    {
      v.nontrivial = false;
      v.classes.push_back("skipped_not_enough_memory");
      return v;
    }
    want = ref_synth(alg, len, pat);
  }
  else
  {
    bytes m = expand((uint64_t)strtoull(c.get("pseed", "0").c_str(), NULL, 10), (size_t)len, (int)c.geti("pstyle"));
    if (entry == "string")
    {
      if (c.geti("reuse"))
      {
        // a hasher object that already digested another message (as FileHeader::getIV and hmac::getres reuse theirs)
        bytes decoy = expand(len * 7 + 3, (size_t)c.geti("decoylen"), 0);
        got = wapi::hash_string_reuse(alg, decoy, m);
        v.classes.push_back("reused_hasher_object");
      }
      else if (c.geti("inplace"))
      {
        // the caller's result buffer overlaps the message (digest over the message start / tail, b = H(b))
        got = wapi::hash_string_inplace(alg, m, (size_t)c.geti("outoff"));
        v.classes.push_back((uint64_t)c.geti("outoff") < len ? "result_buffer_overlaps_message" : "result_buffer_adjacent_to_message");
      }
      else
      {
        int ao = (int)c.geti("addroff", 0);
        if (ao)
          v.classes.push_back("message_not_word_aligned");
        got = wapi::hash_string(alg, m, ao);
      }
      want = ref::hash(alg, m);
    }
    else
    {
      int refill = (int)c.geti("refill", 2);
      size_t pos = (size_t)c.geti("pos");
      bool prefix = c.geti("prefix") != 0;
      bytes pre = expand(len * 31 + 7, 64, 0);
      bytes file = expand(99, pos, 0);
      file.insert(file.end(), m.begin(), m.end());
      bytes other = expand(len * 5 + 11, (size_t)c.geti("otherlen"), 0);
      if (c.geti("otherlen") > 0)
        v.classes.push_back("second_hash_buffer_alive");
      int how = (int)c.geti("how", 0);
      if (how == 1)
        v.classes.push_back("file_entry_reads_from_a_pipe");
      if (how == 3)
        v.classes.push_back("file_entry_reads_from_a_pipe_after_a_header_was_read");
      if (how == 2)
      {
        // the stream has been read to its end by the caller: the message that is left is empty
        v.classes.push_back("file_entry_stream_already_at_eof");
        m.clear();
        len = 0;
      }
      got = wapi::hash_filebuf(alg, file, pos, refill, prefix ? &pre : NULL, c.geti("otherlen") > 0 ? &other : NULL, how);
      bytes whole;
      if (prefix)
        whole = pre;
      whole.insert(whole.end(), m.begin(), m.end());
      want = ref::hash(alg, whole);
      uint64_t unit = (uint64_t)refill * 64;
      if (len >= unit)
        v.classes.push_back("refilled");
      if (len % unit == 0 && len)
        v.classes.push_back("len_multiple_of_refill");
      v.classes.push_back(prefix ? "with_prefix_block" : "no_prefix_block");
    }
  }
  {
    Case id;
    id.seti("alg", alg);
    id.set("entry", entry);
    id.set("len", std::to_string(len));
    id.set("h", hex(want));
    v.distinct = fnv64(id.text());
  }
  if (got != want)
  {
    Verdict f = Verdict::fail(std::string(an[alg % 3]) + " via " + entry + " of a " + std::to_string(len) + "-byte message: got " + hex(got) + ", standard value " + hex(want));
    f.nontrivial = v.nontrivial;
    f.classes = v.classes;
    f.distinct = v.distinct;
    return f;
  }
  return v;
}

static Case gen_c07()
{
  Case c;
  c.seti("alg", g::range(0, 3));
  bool file = g::coin(50);
  c.set("entry", file ? "file" : "string");
  uint64_t len;
  int refill = (int)g::oneof<long>({1, 2, 3, 5, 8, 16});
  if (refill > wapi::refill_capacity())
    refill = wapi::refill_capacity();
  if (file)
  {
    uint64_t unit = (uint64_t)refill * 64;
    if (g::coin(60))
    {
      long j = g::range(0, 5);
      long d = g::oneof<long>({-65, -64, -63, -9, -8, -1, 0, 1, 55, 56, 57, 63, 64, 65});
      long L = j * (long)unit + d;
      len = L < 0 ? 0 : (uint64_t)L;
    }
    else
      len = (uint64_t)g::range(0, 6000);
    c.seti("refill", refill);
    c.seti("pos", g::coin(50) ? 0 : g::range(0, 100));
    c.seti("prefix", g::coin(50) ? 1 : 0);
    if (g::coin(25))
      c.seti("otherlen", g::range(1, 400));
    if (g::coin(14))
      c.seti("how", g::oneof<long>({1, 1, 3, 3, 2})); // a pipe / a pipe of which a header was read first / read to its end before
  }
  else
  {
    long k = g::range(0, 10);
    len = k < 5 ? (uint64_t)g::range(0, 700) : k < 9 ? (uint64_t)g::range(0, 8192) : (uint64_t)g::range(0, 65537);
  }
  c.set("len", std::to_string(len));
  if (!file && g::coin(30))
  {
    c.seti("reuse", 1);
    c.seti("decoylen", g::oneof<long>({0, 1, 55, 56, 63, 64, 65, 119, 120, 200}));
  }
  else if (!file && g::coin(15))
  {
    c.seti("inplace", 1);
    long hl = wapi::hash_len((int)c.geti("alg"));
    long L = (long)len;
    long k = g::range(0, 5);
    c.seti("outoff", k == 0 ? 0 : k == 1 ? std::max(0L, L - hl) : k == 2 ? L : k == 3 ? std::max(0L, L - 1) : g::range(0, L + 1));
  }
  else if (!file && g::coin(45))
    c.seti("addroff", g::range(1, 8)); // the message starts at an address that is not word aligned
  c.set("pseed", std::to_string(g::u64()));
  c.seti("pstyle", g::range(0, 10) < 8 ? 0 : g::range(1, 4));
  return c;
}

static void fixed_c07(Ctx &ctx)
{
  const Prop *p = find_prop("C07");
  uint64_t i = 0;
  bool big = ctx.mode == "big";
  if (!big)
  {
    // (a) every length 0..320 x 3 algorithms x 3 content patterns, in-memory entry point: exhaustive over residues mod 64
    for (int alg = 0; alg < 3; alg++)
      for (int len = 0; len <= 320; len++)
        for (int style : {0, 1, 2})
        {
          if (!mine(ctx, i++))
            continue;
          Case c;
          c.seti("alg", alg);
          c.set("entry", "string");
          c.seti("len", len);
          c.set("pseed", std::to_string(1000 + len));
          c.seti("pstyle", style);
          eval_fixed(*p, ctx, c);
        }
    // (a') the result buffer inside the message: every offset for a few lengths
    for (int alg = 0; alg < 3; alg++)
      for (int len : {1, 16, 20, 32, 55, 56, 64, 100, 130})
        for (int off = 0; off <= len; off++)
        {
          if (!mine(ctx, i++))
            continue;
          Case c;
          c.seti("alg", alg);
          c.set("entry", "string");
          c.seti("len", len);
          c.set("pseed", std::to_string(7000 + len));
          c.seti("pstyle", 0);
          c.seti("inplace", 1);
          c.seti("outoff", off);
          eval_fixed(*p, ctx, c);
        }
    // (c) file entry point: refill sizes x lengths around refill / block boundaries x prefix block
    for (int alg = 0; alg < 3; alg++)
      for (int refill : {1, 2, 3, 5, 8})
        for (int j = 0; j <= 3; j++)
          for (int d : {-65, -64, -63, -9, -8, -1, 0, 1, 55, 56, 63, 64})
            for (int prefix : {0, 1})
            {
              long L = (long)j * refill * 64 + d;
              if (L < 0)
                continue;
              if (!mine(ctx, i++))
                continue;
              Case c;
              c.seti("alg", alg);
              c.set("entry", "file");
              c.seti("len", L);
              c.set("pseed", std::to_string(5000 + L));
              c.seti("pstyle", 0);
              c.seti("refill", refill);
              c.seti("pos", (j & 1) ? 48 : 0);
              c.seti("prefix", prefix);
              eval_fixed(*p, ctx, c);
            }
    ctx.stats.info["exhaustive_string_lengths"] = "0..320 x 3 algorithms x 3 patterns";
    return;
  }
  // (d) synthetic streams crossing the 2^32-bit (and in thorough the 2^32-byte) boundary; one case per shard slot
  std::vector<std::pair<int, uint64_t>> jobs;
  std::vector<long> offs = ctx.thorough() ? std::vector<long>{-1, 0, 1, 55, 56, 64} : std::vector<long>{56};
  for (int alg : {1, 0, 2})
    for (long d : offs)
      jobs.push_back({alg, (1ull << 29) + d});
  if (!ctx.thorough())
    jobs.push_back({1, (1ull << 29) - 1});
  if (ctx.thorough())
    for (int alg : {1, 0, 2})
      for (long d : {-1L, 0L, 56L})
        jobs.push_back({alg, (1ull << 32) + d});
  for (auto &j : jobs)
  {
    if (!mine(ctx, i++))
      continue;
    Case c;
    c.seti("alg", j.first);
    c.set("entry", "synth");
    c.set("len", std::to_string(j.second));
    c.seti("pat", 12345);
    eval_fixed(*p, ctx, c);
  }
  // the in-memory entry point with messages of 2^29 bytes and more (512 MiB materialised per case)
  std::vector<std::pair<int, uint64_t>> sjobs = {{1, (1ull << 29)}, {1, (1ull << 29) + 5}, {0, (1ull << 29) + 56}, {1, (1ull << 29) - 1}};
  if (ctx.thorough())
  {
    sjobs.push_back({2, (1ull << 29)});
    sjobs.push_back({0, (1ull << 29)});
    sjobs.push_back({1, (1ull << 31) + 7});
    sjobs.push_back({2, (1ull << 29) + 63});
  }
  for (auto &j : sjobs)
  {
    if (!mine(ctx, i++))
      continue;
    Case c;
    c.seti("alg", j.first);
    c.set("entry", "bigstring");
    c.set("len", std::to_string(j.second));
    c.seti("pat", 777);
    eval_fixed(*p, ctx, c);
  }
}

static PropReg reg({"C07", gen_c07, run_c07, fixed_c07, 60000, 3000000, 100, "plain"});
