#include "../schedprops.h"
static Verdict run_(const Case &c) { return run_sched_case(c, SP_C04); }
static Case gen_() { return gen_sched_case(SP_C04); }
static void fixed_(Ctx &ctx) { fixed_sched(ctx, SP_C04, "C04"); }
static PropReg reg({"C04", gen_, run_, fixed_, 100000, 4000000, 100, "schedfast"});
