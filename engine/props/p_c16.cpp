// C16 base64 codec is RFC 4648 and the key validator accepts exactly 16-byte keys.
#include "../harness.h"
#include "../gen.h"

static const char *ALPHA = "ABCDEFGHIJKLMNOPQRSTUVWXYZabcdefghijklmnopqrstuvwxyz0123456789+/";
static bool in_alpha(unsigned char ch) { return ch && strchr(ALPHA, ch) != NULL; }

static std::string check_codec(const bytes &x)
{
  size_t need = 4 * ((x.size() + 2) / 3) + 1;
  bool term = false;
  size_t upto = 0;
  std::string got = wapi::b64_encode(x, need + 8, term, upto);
  std::string want = ref::b64_encode(x.data(), x.size());
  if (!term)
    return "encoding of " + std::to_string(x.size()) + " bytes is not NUL-terminated";
  if (got != want)
    return "encoding of " + hex(x) + " is \"" + got + "\", RFC 4648 gives \"" + want + "\"";
  if (upto != need)
    return "encoder wrote up to offset " + std::to_string(upto) + ", expected exactly " + std::to_string(need) + " bytes (4*ceil(n/3) + NUL)";
  wapi::b64_encode(x, need, term, upto); // exact-size heap buffer: ASan sees any byte beyond the NUL
  bytes back = wapi::b64_decode(got, (int)got.size(), x.size() + 8);
  for (size_t i = 0; i < x.size(); i++)
    if (back[i] != x[i])
      return "decode(encode(x)) differs from x at byte " + std::to_string(i);
  for (size_t i = x.size(); i < back.size(); i++)
    if (back[i] != 0xA5)
      return "decoder wrote more than " + std::to_string(x.size()) + " bytes";
  wapi::b64_decode(got, (int)got.size(), x.size()); // exact-size output buffer under ASan
  return "";
}

static Verdict run_c16(const Case &c)
{
  Verdict v;
  std::string kind = c.get("kind", "enc");
  if (kind == "fresh")
  {
    // the program validates a key before it has decoded or encoded anything: the very first base64 call of a
    // process is the validator. Run as the first thing of a shard (nothing decoded yet in this process or its
    // children), in a forked child; `order` = 0 validator first, 1 the CLI's -k path first.
    std::vector<std::string> bad;
    std::string ok = "ABEiM0RVZneImaq7zN3u/w==";
    for (const char *ch : {"!", "-", "_", " ", ".", "=", "\x80", "\xff", "\x01", "*"})
      for (size_t pos : {(size_t)0, (size_t)11, (size_t)21})
      {
        std::string t = ok;
        t.replace(pos, 1, ch);
        bad.push_back(t);
      }
    for (size_t pos : {(size_t)0, (size_t)7, (size_t)21})
    {
      std::string t = ok;
      t[pos] = (char)((unsigned char)t[pos] | 0x80);
      bad.push_back(t);
    }
    bad.push_back(std::string(22, '!') + "==");
    bad.push_back(ok.substr(0, 23));
    bad.push_back(ok + "A");
    bad.push_back(ok.substr(0, 22) + "A=");
    long order = c.geti("order");
    ChildResult r = run_in_child([&]() {
      Ser s;
      for (auto &t : bad)
      {
        bytes k;
        bool acc = order ? wapi::cli_key_path(t, k) : wapi::b64_valid_key(t);
        s.u8(acc);
      }
      bytes k;
      s.u8(order ? wapi::cli_key_path(ok, k) : wapi::b64_valid_key(ok));
      return s.b;
    });
    v.nontrivial = true;
    v.weight = bad.size() + 1;
    v.distinct = 0x2000000ull + (uint64_t)order;
    v.classes.push_back("validator_is_the_first_base64_call_of_the_process");
    if (r.status != CH_OK)
      return Verdict::fail("validating keys in a fresh process did not end normally: " + r.describe());
    De d(r.payload);
    for (auto &t : bad)
      if (d.u8())
        return Verdict::fail(std::string(order ? "the -k option" : "the key validator") + " accepts \"" + t + "\" when it is the first base64 call of the process (it is not the 24-character encoding of 16 bytes)");
    if (!d.u8())
      return Verdict::fail(std::string(order ? "the -k option" : "the key validator") + " rejects a valid key when it is the first base64 call of the process");
    return v;
  }
  if (kind == "groups")
  {
    // exhaustive: all 3-byte groups with the given top 12 bits
    uint32_t top = (uint32_t)c.geti("top");
    v.weight = 4096;
    v.nontrivial = true;
    v.distinct = 0x1000000ull + top;
    for (uint32_t low = 0; low < 4096; low++)
    {
      uint32_t g3 = (top << 12) | low;
      bytes x = {(uint8_t)(g3 >> 16), (uint8_t)(g3 >> 8), (uint8_t)g3};
      bool term;
      size_t upto;
      std::string got = wapi::b64_encode(x, 5, term, upto);
      std::string want = ref::b64_encode(x.data(), 3);
      if (got != want || !term)
        return Verdict::fail("group " + hex(x) + " encodes to \"" + got + "\", RFC 4648 gives \"" + want + "\"");
      bytes back = wapi::b64_decode(got, 4, 3);
      if (back != x)
        return Verdict::fail("group " + hex(x) + " does not survive encode/decode");
    }
    v.classes.push_back("three_byte_groups_x4096");
    return v;
  }
  if (kind == "enc")
  {
    bytes x = c.has("x") ? c.getb("x") : expand((uint64_t)strtoull(c.get("pseed", "0").c_str(), NULL, 10), (size_t)c.geti("len"), (int)c.geti("pstyle"));
    v.nontrivial = x.size() >= 1;
    v.classes.push_back("codec_tail" + std::to_string(x.size() % 3));
    v.distinct = fnv64(hex(x));
    std::string m = check_codec(x);
    if (!m.empty())
    {
      Verdict f = Verdict::fail(m);
      f.nontrivial = v.nontrivial;
      f.classes = v.classes;
      return f;
    }
    return v;
  }
  if (kind == "printed")
  {
    // the key string printed at encryption (the encoder's own output for 16 bytes) is accepted and gives the same key
    bytes k = c.getb("key");
    k.resize(16);
    bool term;
    size_t upto;
    std::string s = wapi::b64_encode(k, 128, term, upto);
    v.nontrivial = true;
    v.classes.push_back("printed_key");
    v.distinct = fnv64("p" + hex(k));
    if (!wapi::b64_valid_key(s))
      return Verdict::fail("the key string printed for key " + hex(k) + " (\"" + s + "\") is rejected by the validator");
    bytes out;
    if (!wapi::cli_key_path(s, out))
      return Verdict::fail("the key string printed for key " + hex(k) + " is rejected by -k");
    if (out != k)
      return Verdict::fail("-k " + s + " yields key " + hex(out) + ", not " + hex(k));
    return v;
  }
  // kind == key: a candidate key string
  bytes sb = c.getb("s");
  std::string s(sb.begin(), sb.end());
  if (s.find('\0') != std::string::npos && s.size() == 24)
  {
    // 24 bytes with a NUL among them: not a C string, so -k cannot deliver it, but the validator takes (pointer,
    // length) and NUL is not a base64 character
    v.nontrivial = true;
    v.distinct = fnv64("k0" + hex(sb));
    v.classes.push_back("candidate_with_embedded_NUL");
    if (wapi::b64_valid_key(s))
      return Verdict::fail("validator accepts 24 bytes that contain a 0x00 byte (candidate " + hex(sb) + ")");
    return v;
  }
  s = s.substr(0, s.find('\0')); // argv strings end at the first NUL
  bool shape = s.size() == 24 && s[22] == '=' && s[23] == '=';
  for (size_t i = 0; shape && i < 22; i++)
    if (!in_alpha((unsigned char)s[i]))
      shape = false;
  bytes strict, lenient;
  bool canonical = shape && ref::b64_decode_strict(s, strict) && strict.size() == 16;
  bool accepted = wapi::b64_valid_key(s);
  v.nontrivial = s.size() == 24;
  v.distinct = fnv64("k" + s);
  v.classes.push_back(canonical ? "key_canonical" : shape ? "key_shape_noncanonical_bits" : "key_malformed");
  v.classes.push_back(accepted ? "validator_accepts" : "validator_rejects");
  if (s.size() == 24)
  {
    int eq = 0;
    for (char ch : s)
      eq += ch == '=';
    v.classes.push_back("len24_eq" + std::to_string(eq > 3 ? 3 : eq));
  }
  auto bad = [&](const std::string &m) {
    Verdict f = Verdict::fail(m + " (candidate \"" + json_escape(s) + "\")");
    f.nontrivial = v.nontrivial;
    f.classes = v.classes;
    f.distinct = v.distinct;
    return f;
  };
  if (canonical && !accepted)
    return bad("validator rejects the canonical 24-character encoding of a 16-byte value");
  if (!shape && accepted)
    return bad("validator accepts a string that is not 22 alphabet characters followed by '=='");
  if (accepted)
  {
    ref::b64_decode_lenient_bits(s, lenient);
    bytes dec = wapi::b64_decode(s, 24, 16 + 8);
    for (size_t i = 16; i < dec.size(); i++)
      if (dec[i] != 0xA5)
        return bad("accepted key decodes to more than 16 bytes");
    dec.resize(16);
    if (dec != lenient)
      return bad("accepted key decodes to " + hex(dec) + ", RFC 4648 gives " + hex(lenient));
    bytes out;
    if (!wapi::cli_key_path(s, out)) // runs is_valid_b64 + the decode into the real 16-byte key buffer (ASan)
      return bad("validator accepts but -k rejects");
    if (out != lenient)
      return bad("-k yields " + hex(out) + ", RFC 4648 gives " + hex(lenient));
  }
  else
  {
    bytes out;
    if (wapi::cli_key_path(s, out))
      return bad("validator rejects but -k accepts");
  }
  return v;
}

static Case gen_c16()
{
  Case c;
  long k = g::range(0, 100);
  if (k < 25)
  {
    c.set("kind", "enc");
    long len = g::coin(70) ? g::range(0, 50) : g::range(0, 301);
    c.seti("len", len);
    c.set("pseed", std::to_string(g::u64()));
    c.seti("pstyle", g::range(0, 10) < 8 ? 0 : g::range(1, 3));
    return c;
  }
  if (k < 32)
  {
    c.set("kind", "printed");
    c.setb("key", g::raw(16));
    return c;
  }
  c.set("kind", "key");
  // start from the valid encoding of a random 16-byte value, then mutate structurally
  bytes key = g::raw(16);
  std::string s = ref::b64_encode(key.data(), 16);
  long m = g::range(0, 20);
  auto rnd_alpha = [&]() { return ALPHA[g::range(0, 64)]; };
  switch (m)
  {
  case 0: // canonical
    break;
  case 1: // non-zero trailing bits
    s[21] = ALPHA[(strchr(ALPHA, s[21]) - ALPHA) | (int)g::range(1, 16)];
    break;
  case 2: // one '=' only
    s[22] = rnd_alpha();
    break;
  case 3: // no '='
    s[22] = rnd_alpha();
    s[23] = rnd_alpha();
    break;
  case 4: // three '='
    s[21] = '=';
    break;
  case 5: // '=' in the middle
    s[(size_t)g::range(0, 22)] = '=';
    break;
  case 6: // character outside the alphabet
  {
    static const unsigned char badc[] = {' ', '-', '_', '.', ',', '*', '\n', '\t', 0x80, 0xff, 0xc3, '@', '[', '`', '{', '~', ':', '!'};
    if (g::coin(40))
    {
      // a valid character with bit 7 set (a table lookup that masks or wraps its index takes it for the character)
      size_t pos = (size_t)g::range(0, 22);
      s[pos] = (char)((unsigned char)s[pos] | 0x80);
    }
    else
      s[(size_t)g::range(0, 24)] = (char)badc[g::range(0, (long)sizeof badc)];
    break;
  }
  case 7: // wrong length
  {
    long L = g::oneof<long>({0, 1, 4, 20, 22, 23, 25, 26, 28, 32, 40, 48, 88, 152, 279, 280, 281, 536, 792, 1048});
    if ((size_t)L < s.size())
      s = s.substr(0, (size_t)L);
    else
      while ((long)s.size() < L)
        s += rnd_alpha();
    break;
  }
  case 8: // length 28 / 20 with proper padding (decodes to 19..20 / 13..14 bytes)
  {
    bytes raw = g::raw((size_t)g::oneof<long>({13, 14, 15, 17, 18, 19, 20}));
    s = ref::b64_encode(raw.data(), raw.size());
    break;
  }
  case 9: // random 24 characters from alphabet + '='
  {
    s.clear();
    for (int i = 0; i < 24; i++)
      s += g::coin(8) ? '=' : rnd_alpha();
    break;
  }
  case 10: // random bytes (non-NUL)
  {
    bytes r = g::raw((size_t)g::range(0, 41));
    s.assign(r.begin(), r.end());
    for (auto &ch : s)
      if (!ch)
        ch = 'A';
    break;
  }
  case 11: // '==' first then alphabet
    s = "==" + s.substr(0, 22);
    break;
  case 17: // a NUL byte among the 24 (the validator is given pointer and length)
    s[(size_t)g::range(0, 24)] = '\0';
    break;
  case 12: // swapped padding position
    std::swap(s[21], s[22]);
    break;
  case 13: // 24 chars, single trailing '=' and 23 alphabet chars
    s = s.substr(0, 22) + rnd_alpha() + "=";
    break;
  case 14: // one to three stray alphabet characters inserted before the padding (length 25..27, still ends in "==")
  {
    long n = g::range(1, 4);
    for (long i = 0; i < n; i++)
      s.insert((size_t)g::range(0, 23), 1, rnd_alpha());
    break;
  }
  case 15:
  case 16: // a valid key with something in front of it and / or behind it (blanks, line ends, quotes: what a key copied
           // from the printed line or read from a file carries along); the 24-character rule admits none of it
  {
    static const unsigned char deco[] = {' ', ' ', ' ', '\t', '\n', '\r', '\v', '\f', '"', '\'', '=', 0xa0, 'A', '0', '/', '+'};
    long where = g::range(0, 3); // 0 front, 1 back, 2 both
    std::string pre, post;
    if (where != 1)
      for (long n = g::range(1, 6); n > 0; n--)
        pre += (char)deco[g::coin(60) ? g::range(0, 8) : g::range(0, (long)sizeof deco)];
    if (where != 0)
      for (long n = g::range(1, 6); n > 0; n--)
        post += (char)deco[g::coin(60) ? g::range(0, 8) : g::range(0, (long)sizeof deco)];
    s = pre + s + post;
    break;
  }
  default: // several random edits
  {
    long n = g::range(1, 4);
    for (long i = 0; i < n; i++)
      s[(size_t)g::range(0, (long)s.size())] = (char)g::range(1, 256);
  }
  }
  c.setb("s", bytes(s.begin(), s.end()));
  return c;
}

static void fixed_c16(Ctx &ctx)
{
  const Prop *p = find_prop("C16");
  uint64_t i = 0;
  if (ctx.mode == "groups")
  {
    for (uint32_t top = 0; top < 4096; top++)
    {
      if (!mine(ctx, i++))
        continue;
      Case c;
      c.set("kind", "groups");
      c.seti("top", top);
      eval_fixed(*p, ctx, c);
    }
    ctx.stats.info["exhaustive_three_byte_groups"] = "all 2^24";
    return;
  }
  // first of all, before this process has encoded or decoded anything: the validator as first base64 call
  for (int order = 0; order < 2; order++)
  {
    Case c;
    c.set("kind", "fresh");
    c.seti("order", order);
    eval_fixed(*p, ctx, c);
  }
  // every length 0..64 (all three tail cases) and all-equal fills
  for (int len = 0; len <= 64; len++)
    for (int style : {0, 1})
    {
      if (!mine(ctx, i++))
        continue;
      Case c;
      c.set("kind", "enc");
      c.seti("len", len);
      c.set("pseed", std::to_string(31 * len + style));
      c.seti("pstyle", style);
      eval_fixed(*p, ctx, c);
    }
  // key candidates: the documented example, 0/1/2/3 '=' endings on a fixed key
  const char *cands[] = {
      "ABEiM0RVZneImaq7zN3u/w==", "ABEiM0RVZneImaq7zN3u/wAA", "ABEiM0RVZneImaq7zN3u/wA=", "ABEiM0RVZneImaq7zN3u/===", "ABEiM0RVZneImaq7zN3u====",
      "Z8Zpc1HSuwpzbqr8vvjRg==", "", "=", "====", "========================", "AAAAAAAAAAAAAAAAAAAAAA==", "//////////////////////==", "/////////////////////w==",
      "ABEiM0RVZneImaq7zN3u/w==AAAA", "QABEiM0RVZneImaq7zN3u/w==", "QQABEiM0RVZneImaq7zN3u/w==", "QQQABEiM0RVZneImaq7zN3u/w==", "ABEiM0RVZneQImaq7zN3u/w==", "BEiM0RVZneImaq7zN3u/w==", "EiM0RVZneImaq7zN3u/w==", "ABEiM0RVZneImaq7zN3u_w==", "ABEiM0RVZneImaq7zN3u-w==", "ABEiM0RVZneImaq7zN3u w==", "ABEiM0RV\nneImaq7zN3u/w=="};
  for (const char *s : cands)
  {
    if (!mine(ctx, i++))
      continue;
    Case c;
    c.set("kind", "key");
    c.setb("s", bytes(s, s + strlen(s)));
    eval_fixed(*p, ctx, c);
  }
  // every single-character substitution (all 255 non-NUL byte values) at every position of a valid key
  std::string base = "ABEiM0RVZneImaq7zN3u/w==";
  for (int pos = 0; pos < 24; pos++)
    for (int ch = 1; ch < 256; ch++)
    {
      if (!mine(ctx, i++))
        continue;
      std::string s = base;
      s[pos] = (char)ch;
      Case c;
      c.set("kind", "key");
      c.setb("s", bytes(s.begin(), s.end()));
      eval_fixed(*p, ctx, c);
    }
  // every single-character insertion (all 255 non-NUL byte values) at every position of a valid key, incl. in front
  // of it and behind it; and 2..4 equal characters in front / behind
  for (int pos = 0; pos <= 24; pos++)
    for (int ch = 1; ch < 256; ch++)
      for (int rep = 1; rep <= ((pos == 0 || pos == 24) ? 4 : 1); rep++)
      {
        if (!mine(ctx, i++))
          continue;
        std::string s = base;
        s.insert((size_t)pos, (size_t)rep, (char)ch);
        Case c;
        c.set("kind", "key");
        c.setb("s", bytes(s.begin(), s.end()));
        eval_fixed(*p, ctx, c);
      }
  // a NUL byte at every position of the valid key
  for (int pos = 0; pos < 24; pos++)
  {
    if (!mine(ctx, i++))
      continue;
    std::string s = base;
    s[pos] = '\0';
    Case c;
    c.set("kind", "key");
    c.setb("s", bytes(s.begin(), s.end()));
    eval_fixed(*p, ctx, c);
  }
  // every length up to 1124 (and 24 + 2^16): a valid key with n more alphabet characters behind it, in front of it, or
  // between its 22 data characters and the padding - whatever the validator does with the length it is given
  // (strlen of the candidate), only 24 characters can be a key
  for (int n = 1; n <= 1100 + 2; n++)
    for (int form = 0; form < 3; form++)
    {
      if (!mine(ctx, i++))
        continue;
      size_t extra = n <= 1100 ? (size_t)n : n == 1101 ? 65536 : 65536 + 256;
      std::string fill(extra, "AQgw"[form + (n & 1)]);
      std::string s = form == 0 ? base + fill : form == 1 ? fill + base : base.substr(0, 22) + fill + "==";
      Case c;
      c.set("kind", "key");
      c.setb("s", bytes(s.begin(), s.end()));
      eval_fixed(*p, ctx, c);
    }
  ctx.stats.info["exhaustive_lengths"] = "a valid key extended by 1..1100, 65536 and 65792 alphabet characters (behind / in front / before the padding)";
  ctx.stats.info["exhaustive_single_char_insertions"] = "25 positions x 255 byte values on one valid key (1..4 copies in front / behind)";
  ctx.stats.info["exhaustive_single_char_substitutions"] = "24 positions x 255 byte values on one valid key";
}

static PropReg reg({"C16", gen_c16, run_c16, fixed_c16, 64000, 3000000, 100, "plain"});
