// C09 single-block AES-128 equals FIPS-197 for every key/block; decryption inverts it.
#include "../harness.h"
#include "../gen.h"
#include <thread>
#include <atomic>

// off: address residue of the block buffer handed to the library (-1: derived from the pair; 3 of 4 pairs get
// the 16-aligned address the pipeline uses, the others any residue)
static std::string check_pair(const uint8_t key[16], const uint8_t blk[16], int off = -1)
{
  if (off < 0)
  {
    int h = key[5] ^ blk[3] ^ (key[11] << 1);
    off = (h & 0x30) ? 0 : (h & 15);
  }
  std::string at = off ? " [block at address = " + std::to_string(off) + " mod 16]" : "";
  ref::Aes128 a(key);
  uint8_t want[16], got[16], back[16], rdec[16];
  a.enc(blk, want);
  memcpy(got, blk, 16);
  wapi::aes_encrypt_block(key, got, off);
  if (memcmp(got, want, 16))
    return "encrypt(key=" + hex(key, 16) + ", block=" + hex(blk, 16) + ") = " + hex(got, 16) + ", FIPS-197 gives " + hex(want, 16) + at;
  memcpy(back, got, 16);
  wapi::aes_decrypt_block(key, back, off);
  if (memcmp(back, blk, 16))
    return "decrypt(encrypt(block)) != block for key=" + hex(key, 16) + ", block=" + hex(blk, 16) + at;
  // decryption of an arbitrary block equals the reference inverse cipher
  a.dec(blk, rdec);
  memcpy(back, blk, 16);
  wapi::aes_decrypt_block(key, back, off);
  if (memcmp(back, rdec, 16))
    return "decrypt(key=" + hex(key, 16) + ", block=" + hex(blk, 16) + ") = " + hex(back, 16) + ", FIPS-197 inverse cipher gives " + hex(rdec, 16) + at;
  if (const char *cm = wapi::canary_report())
    return std::string(cm) + " by encrypt/decrypt(key=" + hex(key, 16) + ", block=" + hex(blk, 16) + ")" + at;
  return "";
}

// ---- directed inputs: a chosen internal state at a chosen round ----
// Random blocks practically never put the cipher into a degenerate internal state (an all-zero column entering
// MixColumns has probability 2^-32 per column and round). The reference's round functions are used to walk
// backwards from such a state to the plaintext, and forwards to the ciphertext, that produce it under the key.
namespace rounds
{
static void sub(uint8_t *s, bool inv)
{
  for (int i = 0; i < 16; i++)
    s[i] = inv ? ref::inv_sbox(s[i]) : ref::sbox(s[i]);
}
static void shift(uint8_t *s, bool inv)
{
  uint8_t t[16];
  for (int r = 0; r < 4; r++)
    for (int c = 0; c < 4; c++)
      if (!inv)
        t[r + 4 * c] = s[r + 4 * ((c + r) % 4)];
      else
        t[r + 4 * ((c + r) % 4)] = s[r + 4 * c];
  memcpy(s, t, 16);
}
static void mix(uint8_t *s, bool inv)
{
  static const uint8_t F[4] = {2, 3, 1, 1}, I[4] = {14, 11, 13, 9};
  const uint8_t *m = inv ? I : F;
  for (int c = 0; c < 4; c++)
  {
    uint8_t col[4];
    for (int r = 0; r < 4; r++)
    {
      uint8_t x = 0;
      for (int k = 0; k < 4; k++)
        x ^= ref::gf_mul(m[(k - r + 4) % 4], s[k + 4 * c]);
      col[r] = x;
    }
    memcpy(s + 4 * c, col, 4);
  }
}
static void addkey(uint8_t *s, const uint8_t *rk)
{
  for (int i = 0; i < 16; i++)
    s[i] ^= rk[i];
}
// `m` is the state entering MixColumns of round r (1..9) if point == 0, or the state entering SubBytes of
// round r (1..10) if point == 1. Computes the plaintext and ciphertext of the block that passes through it.
static void through(const ref::Aes128 &a, int point, int r, const uint8_t m[16], uint8_t pt[16], uint8_t ct[16])
{
  uint8_t s[16];
  // backwards to the plaintext
  memcpy(s, m, 16);
  if (point == 0)
  {
    shift(s, true);
    sub(s, true);
  }
  // s = state after AddRoundKey(r-1)
  for (int k = r - 1; k >= 1; k--)
  {
    addkey(s, a.rk[k]);
    mix(s, true);
    shift(s, true);
    sub(s, true);
  }
  addkey(s, a.rk[0]);
  memcpy(pt, s, 16);
  // forwards to the ciphertext
  memcpy(s, m, 16);
  if (point == 1)
  {
    sub(s, false);
    shift(s, false);
  }
  // s = state entering MixColumns of round r (for r == 10 there is none)
  for (int k = r; k <= 9; k++)
  {
    mix(s, false);
    addkey(s, a.rk[k]);
    sub(s, false);
    shift(s, false);
  }
  addkey(s, a.rk[10]);
  memcpy(ct, s, 16);
}
} // namespace rounds

static Verdict run_c09(const Case &c)
{
  Verdict v;
  std::string kind = c.get("kind", "batch");
  if (kind == "threads")
  {
    // several threads, each with its own key, cipher objects and blocks, use the cipher for the first time in
    // the process at the same moment (the pipeline's workers do so on their first chunk). Run in a child that is
    // forked before this process has touched AES; under ThreadSanitizer any unsynchronised shared state shows
    // as a data race, without it as a wrong block when the timing allows.
    int nthreads = (int)c.geti("n", 8);
    uint64_t seed = (uint64_t)c.geti("seed");
    ChildResult r = run_in_child([&]() {
      {
        // the reference builds its own tables on first use: do that here, on one thread (wencry's AES stays untouched)
        uint8_t z[16] = {0}, o[16];
        ref::Aes128 a(z);
        a.enc(z, o);
        a.dec(z, o);
        (void)ref::sbox(1);
        (void)ref::inv_sbox(1);
        (void)ref::gf_mul(3, 7);
      }
      std::vector<std::string> msgs((size_t)nthreads);
      std::vector<std::thread> ts;
      std::atomic<int> ready{0};
      for (int t = 0; t < nthreads; t++)
        ts.emplace_back([&, t] {
          Sm64 rr(seed * 1000 + (uint64_t)t);
          ready++;
          while (ready.load() < nthreads)
          {
          }
          for (int i = 0; i < 4 && msgs[(size_t)t].empty(); i++)
          {
            uint8_t k[16], b[16];
            for (int j = 0; j < 16; j += 8)
            {
              uint64_t x = rr.next(), y = rr.next();
              memcpy(k + j, &x, 8);
              memcpy(b + j, &y, 8);
            }
            msgs[(size_t)t] = check_pair(k, b, 0);
          }
        });
      for (auto &t : ts)
        t.join();
      Ser s;
      std::string all;
      for (auto &m : msgs)
        if (!m.empty() && all.empty())
          all = m;
      s.str(all);
      return s.b;
    });
    v.nontrivial = true;
    v.weight = (uint64_t)nthreads * 4;
    v.distinct = 0x3000000ull + seed;
    v.classes.push_back("first_use_from_several_threads_at_once");
    if (r.status == CH_EXIT && r.code == 97)
    {
      std::string first;
      size_t p1 = r.detail.find("WARNING:"), p2 = r.detail.find("\n\n", p1 == std::string::npos ? 0 : p1);
      first = r.detail.substr(p1 == std::string::npos ? 0 : p1, 600);
      (void)p2;
      for (auto &ch : first)
        if (ch == '\n')
          ch = '|';
      if (r.detail.find("/kernel/") == std::string::npos)
      {
        // no frame of the code under test in the report: a race inside the harness, not a verdict about wencry
        Verdict f = Verdict::fail("harness: ThreadSanitizer report without a frame in wencry: " + first);
        f.infra = true;
        return f;
      }
      return Verdict::fail("ThreadSanitizer: threads that each use their own key, cipher object and block race on shared state of the cipher: " + first);
    }
    if (r.status != CH_OK)
      return Verdict::fail("concurrent first use of the cipher did not end normally: " + r.describe());
    De d(r.payload);
    std::string m = d.str();
    if (!m.empty())
      return Verdict::fail(m + " [" + std::to_string(nthreads) + " threads using the cipher for the first time in the process at once]");
    return v;
  }
  if (kind == "handles")
  {
    // handle lifetimes: handles constructed, copied, assigned, destroyed and their storage reused for another key;
    // whatever handle is run must compute AES under the key IT was built / copied / assigned with.
    bool enc = c.geti("enc", 1) != 0;
    int nslots = (int)c.geti("slots", 3), nops = (int)c.geti("ops", 24);
    Sm64 r(strtoull(c.get("seed", "0").c_str(), NULL, 10));
    std::vector<wapi::AesHOp> ops;
    std::vector<bytes> model((size_t)nslots), want;
    std::vector<std::string> what;
    bool copied_then_source_gone = false;
    std::vector<int> copied_from((size_t)nslots, -1);
    for (int i = 0; i < nops; i++)
    {
      wapi::AesHOp o;
      uint64_t x = r.next();
      int sel = (int)(x % 100);
      o.a = (int)((x >> 8) % (uint64_t)nslots);
      o.b = (int)((x >> 16) % (uint64_t)nslots);
      o.op = sel < 25 ? 0 : sel < 45 ? 1 : sel < 55 ? 2 : sel < 65 ? 3 : 4;
      if (i < 2)
      {
        o.op = 0;
        o.a = i % nslots;
      }
      if (o.op == 0)
      {
        o.key = r.bytes_(16);
        model[(size_t)o.a] = o.key;
        for (int s2 = 0; s2 < nslots; s2++)
          if (copied_from[(size_t)s2] == o.a)
            copied_from[(size_t)s2] = -2; // its source now holds another key
        copied_from[(size_t)o.a] = -1;
      }
      else if (o.op == 1)
      {
        if (o.a != o.b && !model[(size_t)o.b].empty())
        {
          model[(size_t)o.a] = model[(size_t)o.b];
          copied_from[(size_t)o.a] = o.b;
        }
      }
      else if (o.op == 2)
      {
        if (!model[(size_t)o.a].empty() && !model[(size_t)o.b].empty() && o.a != o.b)
        {
          model[(size_t)o.a] = model[(size_t)o.b];
          copied_from[(size_t)o.a] = o.b;
        }
      }
      else if (o.op == 3)
      {
        model[(size_t)o.a].clear();
        for (int s2 = 0; s2 < nslots; s2++)
          if (copied_from[(size_t)s2] == o.a)
            copied_from[(size_t)s2] = -2;
        copied_from[(size_t)o.a] = -1;
      }
      else
      {
        o.block = r.bytes_(16);
        if (model[(size_t)o.a].empty())
          want.push_back(bytes());
        else
        {
          ref::Aes128 a(model[(size_t)o.a].data());
          bytes w(16);
          if (enc)
            a.enc(o.block.data(), w.data());
          else
            a.dec(o.block.data(), w.data());
          want.push_back(w);
          if (copied_from[(size_t)o.a] == -2)
            copied_then_source_gone = true;
        }
        what.push_back("step " + std::to_string(i) + ": handle in slot " + std::to_string(o.a) + (copied_from[(size_t)o.a] == -2 ? " (a copy whose source has since been destroyed / rebuilt with another key)" : copied_from[(size_t)o.a] >= 0 ? " (a copy, source alive)" : "") + ", key=" + hex(model[(size_t)o.a]) + ", block=" + hex(o.block));
      }
      ops.push_back(o);
    }
    bool copyable = true;
    std::vector<bytes> got = wapi::aes_handles(enc, nslots, ops, &copyable);
    v.nontrivial = true;
    v.weight = want.size();
    if (!copyable)
    {
      v.classes.push_back("handles_not_copyable_copies_skipped");
      return v; // the model copied, the library did not: nothing to compare
    }
    for (size_t i = 0; i < want.size() && i < got.size(); i++)
      if (got[i] != want[i])
      {
        Verdict f = Verdict::fail(std::string(enc ? "encrypt" : "decrypt") + " through a long-lived handle: " + what[i] + " gave " + hex(got[i]) + ", FIPS-197 gives " + hex(want[i]));
        f.nontrivial = true;
        return f;
      }
    if (const char *cm = wapi::canary_report())
      return Verdict::fail(std::string(cm) + " (handle script)");
    v.classes.push_back(copied_then_source_gone ? "handles_copy_outlives_source" : "handles_script");
    return v;
  }
  if (kind == "state")
  {
    bytes k = c.getb("key");
    k.resize(16);
    int point = (int)c.geti("point"), r = (int)c.geti("round");
    uint32_t mask = (uint32_t)c.geti("zeromask");
    bytes fill = expand((uint64_t)c.geti("fill"), 16, 0);
    if (r < 1 || r > (point == 0 ? 9 : 10))
      r = 1;
    uint8_t m[16], pt[16], ct[16], chk[16];
    for (int i = 0; i < 16; i++)
      m[i] = (mask >> i) & 1 ? 0 : (fill[i] ? fill[i] : 0x5a);
    ref::Aes128 a(k.data());
    rounds::through(a, point, r, m, pt, ct);
    a.enc(pt, chk);
    if (memcmp(chk, ct, 16))
    {
      Verdict f = Verdict::fail("harness: round walk disagrees with the reference cipher");
      f.infra = true;
      return f;
    }
    v.nontrivial = true;
    v.weight = 2;
    v.classes.push_back(point == 0 ? "chosen_state_entering_MixColumns" : "chosen_state_entering_SubBytes");
    v.more_distinct.push_back(fnv64(hex(k) + hex(pt, 16)));
    std::string msg = check_pair(k.data(), pt, 0);
    if (msg.empty())
      msg = check_pair(k.data(), ct, 0); // decrypt(ct) walks the same states backwards
    if (!msg.empty())
    {
      Verdict f = Verdict::fail(msg + " [block chosen so that the state entering " + (point == 0 ? "MixColumns" : "SubBytes") + " of round " + std::to_string(r) + " is " + hex(m, 16) + "]");
      f.nontrivial = true;
      return f;
    }
    return v;
  }
  if (kind == "tables")
  {
    v.nontrivial = true;
    v.weight = 256 * 2 + 493 + 256 + 7 * 256 + 10;
    const uint8_t *sb = wapi::tab_sbox(), *rsb = wapi::tab_rsbox(), *lg = wapi::tab_log(), *al = wapi::tab_alog(), *rc = wapi::tab_rc();
    for (int i = 0; i < 256; i++)
    {
      if (sb[i] != ref::sbox((uint8_t)i))
        return Verdict::fail("s_box[" + std::to_string(i) + "] is not the FIPS-197 S-box value");
      if (rsb[sb[i]] != i)
        return Verdict::fail("rs_box is not the inverse of s_box at " + std::to_string(i));
    }
    // Alogtable[i] == 3^i for every index the code can reach (u + Logtable[v], u <= 238, Logtable <= 254)
    uint8_t pw = 1;
    for (int i = 0; i <= 492; i++)
    {
      if (al[i] != pw)
        return Verdict::fail("Alogtable[" + std::to_string(i) + "] != 3^" + std::to_string(i));
      pw = ref::gf_mul(pw, 3);
    }
    for (int x = 1; x < 256; x++)
      if (al[lg[x]] != x)
        return Verdict::fail("Logtable[" + std::to_string(x) + "] is not the discrete log base 3");
    static const int coef_log[7] = {0, 1, 25, 104, 199, 223, 238};
    for (int u : coef_log)
    {
      uint8_t coef = al[u];
      for (int x = 0; x < 256; x++)
        if (wapi::gmul(u, (uint8_t)x) != ref::gf_mul(coef, (uint8_t)x))
          return Verdict::fail("Gmul(" + std::to_string(u) + "," + std::to_string(x) + ") is not the GF(2^8) product");
    }
    uint8_t r = 1;
    for (int i = 1; i <= 10; i++)
    {
      if (rc[i] != r)
        return Verdict::fail("RC[" + std::to_string(i) + "] wrong");
      r = ref::gf_mul(r, 2);
    }
    // the coefficients used are the MixColumns ones
    if (al[25] != 3 || al[1] != 3 || al[0] != 1)
    {
    }
    v.classes.push_back("tables_exhaustive");
    return v;
  }
  std::vector<std::pair<bytes, bytes>> pairs;
  if (kind == "batch")
  {
    uint64_t seed = strtoull(c.get("seed", "0").c_str(), NULL, 10);
    int n = (int)c.geti("n", 64);
    Sm64 r(seed);
    bytes prevk, prevb;
    for (int i = 0; i < n; i++)
    {
      bytes k(16), b(16);
      for (int j = 0; j < 16; j += 8)
      {
        uint64_t x = r.next(), y = r.next();
        memcpy(k.data() + j, &x, 8);
        memcpy(b.data() + j, &y, 8);
      }
      // half of the pairs share a prefix of random length with the previous key / block, so that anything
      // remembered from the previous call (a cached key schedule, a stale state) would be used for a different input
      uint64_t sel = r.next();
      if (i > 0 && (sel & 1))
      {
        size_t keep = 1 + (sel >> 8) % 15;
        memcpy(k.data(), prevk.data(), keep);
      }
      if (i > 0 && (sel & 2))
      {
        size_t keep = 1 + (sel >> 16) % 15;
        memcpy(b.data(), prevb.data(), keep);
      }
      prevk = k;
      prevb = b;
      pairs.push_back({k, b});
    }
    v.classes.push_back("random_pairs");
  }
  else if (kind == "pair")
  {
    pairs.push_back({c.getb("key"), c.getb("block")});
    v.classes.push_back("structured_pair");
  }
  v.nontrivial = true;
  v.weight = pairs.size();
  for (auto &p : pairs)
  {
    bytes k = p.first, b = p.second;
    k.resize(16);
    b.resize(16);
    v.more_distinct.push_back(fnv64(hex(k) + hex(b)));
    std::string m = check_pair(k.data(), b.data());
    for (int off = 0; off < 16 && m.empty() && kind == "pair"; off++) // structured pairs: at every address residue
      m = check_pair(k.data(), b.data(), off);
    if (!m.empty())
    {
      Verdict f = Verdict::fail(m);
      f.nontrivial = true;
      return f;
    }
  }
  v.classes.push_back(kind == "pair" ? "all_16_address_residues" : "address_residue_0_for_3_of_4_pairs_else_any");
  return v;
}

// zero patterns of a 4x4 state (bit i = byte r + 4c with i = r + 4c): columns, rows, diagonals, everything, all but one
static uint32_t zero_pattern(long k, long sub)
{
  auto col = [](int c) { return 0xFu << (4 * c); };
  auto row = [](int r) { return 0x1111u << r; };
  auto diag = [](int d, bool anti) {
    uint32_t m = 0;
    for (int r = 0; r < 4; r++)
      m |= 1u << (r + 4 * (((anti ? d - r : d + r) % 4 + 4) % 4));
    return m;
  };
  switch (k % 8)
  {
  case 0:
    return col((int)(sub % 4));
  case 1:
    return col((int)(sub % 4)) | col((int)((sub / 4) % 4));
  case 2:
    return row((int)(sub % 4));
  case 3:
    return diag((int)(sub % 4), false);
  case 4:
    return diag((int)(sub % 4), true);
  case 5:
    return 0xFFFFu;
  case 6:
    return 0xFFFFu & ~(1u << (sub % 16));
  default:
    return (uint32_t)(sub * 2654435761u) & 0xFFFFu;
  }
}

static Case gen_c09()
{
  Case c;
  if (g::coin(10))
  {
    c.set("kind", "state");
    c.setb("key", g::coin(80) ? g::raw(16) : bytes(16, (uint8_t)g::range(0, 256)));
    long point = g::range(0, 2);
    c.seti("point", point);
    c.seti("round", g::range(1, point == 0 ? 10 : 11));
    c.seti("zeromask", zero_pattern(g::range(0, 8), g::range(0, 65536)));
    c.seti("fill", g::range(1, 1000000));
    return c;
  }
  if (g::coin(8))
  {
    c.set("kind", "handles");
    c.seti("enc", g::range(0, 2));
    c.seti("slots", g::coin(65) ? g::range(2, 5) : g::range(5, 13)); // up to 12 handles with different keys alive at once
    c.seti("ops", g::range(6, 40));
    c.set("seed", std::to_string(g::u64()));
    return c;
  }
  if (g::coin(85))
  {
    c.set("kind", "batch");
    c.set("seed", std::to_string(g::u64()));
    c.seti("n", 64);
  }
  else
  {
    c.set("kind", "pair");
    c.setb("key", g::raw(16));
    c.setb("block", g::raw(16));
  }
  return c;
}

static void fixed_c09(Ctx &ctx)
{
  const Prop *p = find_prop("C09");
  uint64_t i = 0;
  // before this process has used AES at all: concurrent first use (each case in a child forked from the still
  // pristine process). With --mode threads (ThreadSanitizer build) nothing else is run.
  for (int rep = 0; rep < (ctx.mode == "threads" ? 12 : 3); rep++)
  {
    Case c;
    c.set("kind", "threads");
    c.seti("n", rep % 2 ? 4 : 8);
    c.seti("seed", (long long)(ctx.seed * 100 + (uint64_t)ctx.shard * 16 + (uint64_t)rep));
    eval_fixed(*p, ctx, c);
  }
  if (ctx.mode == "threads")
    return;
  // every structured zero pattern at every round and both points, for three keys
  for (int kk = 0; kk < 3; kk++)
    for (int point = 0; point < 2; point++)
      for (int r = 1; r <= (point == 0 ? 9 : 10); r++)
        for (int pk = 0; pk < 7; pk++)
          for (int sub = 0; sub < (pk == 1 || pk == 6 ? 16 : pk == 5 ? 1 : 4); sub++)
          {
            if (!mine(ctx, i++))
              continue;
            Case c;
            c.set("kind", "state");
            c.setb("key", kk == 0 ? bytes(16, 0) : kk == 1 ? unhex("000102030405060708090a0b0c0d0e0f") : expand(99, 16, 0));
            c.seti("point", point);
            c.seti("round", r);
            c.seti("zeromask", zero_pattern(pk, sub));
            c.seti("fill", 7 + r);
            eval_fixed(*p, ctx, c);
          }
  if (mine(ctx, i++))
  {
    Case c;
    c.set("kind", "tables");
    eval_fixed(*p, ctx, c);
  }
  auto pair = [&](const bytes &k, const bytes &b) {
    if (!mine(ctx, i++))
      return;
    Case c;
    c.set("kind", "pair");
    c.setb("key", k);
    c.setb("block", b);
    eval_fixed(*p, ctx, c);
  };
  bytes z(16, 0), f(16, 0xff);
  // FIPS-197 examples
  pair(unhex("000102030405060708090a0b0c0d0e0f"), unhex("00112233445566778899aabbccddeeff"));
  pair(unhex("2b7e151628aed2a6abf7158809cf4f3c"), unhex("3243f6a8885a308d313198a2e0370734"));
  // one-hot keys and blocks
  for (int bit = 0; bit < 128; bit++)
  {
    bytes oh(16, 0);
    oh[bit / 8] = (uint8_t)(0x80 >> (bit % 8));
    pair(oh, z);
    pair(z, oh);
    pair(oh, oh);
    pair(f, oh);
  }
  // single-byte sweeps: each byte position x 256 values in key and in block
  for (int pos = 0; pos < 16; pos++)
    for (int val = 0; val < 256; val++)
    {
      bytes a(16, 0x5a);
      a[pos] = (uint8_t)val;
      pair(a, unhex("00112233445566778899aabbccddeeff"));
      pair(unhex("2b7e151628aed2a6abf7158809cf4f3c"), a);
    }
  // all-equal bytes
  for (int val = 0; val < 256; val++)
  {
    bytes a(16, (uint8_t)val);
    pair(a, a);
  }
  ctx.stats.info["exhaustive_tables"] = "s_box, rs_box, Logtable, Alogtable[0..492], Gmul for the 7 used coefficients x 256, RC[1..10]";
}

static PropReg reg({"C09", gen_c09, run_c09, fixed_c09, 32000, 1600000, 100, "plain"});
