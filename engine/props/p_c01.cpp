// C01 round trip: decrypt(encrypt(P)) == P for every length, mode and thread count.
#include "../pipe.h"
#include "../spawn.h"

#include "../prodrun.h"

static Verdict run_c01(const Case &c)
{
  if (c.get("kind") == "prod")
    return run_prod(c);
  EncCase e = enc_from(c);
  Verdict v;
  uint64_t nch = nchunks_of(padded(e.P.size()), e.chunk);
  bool bnd = boundary_len(e.P.size(), e.chunk);
  v.nontrivial = e.P.size() > 0 && (nch >= 2 || bnd);
  v.classes.push_back("cmode" + std::to_string(e.cmode));
  v.classes.push_back("hmode" + std::to_string(e.hmode));
  v.classes.push_back(e.T == 1 ? "T=1" : e.T <= 4 ? "T2-4" : "T5-16");
  v.classes.push_back(nch >= 2 ? "multi_chunk" : "single_chunk");
  if (bnd)
    v.classes.push_back("boundary_len");
  if (e.P.empty())
    v.classes.push_back("empty");
  if (padded(e.P.size()) % e.chunk == 0)
    v.classes.push_back("padded_len_multiple_of_chunk");
  if ((uint64_t)e.T > nch)
    v.classes.push_back("T>chunks");
  if (nch > 256)
    v.classes.push_back(nch > 65536 ? "more_than_65536_chunks" : "more_than_256_chunks");
  if (e.s1.kind || e.s2.kind)
    v.classes.push_back("non_canonical_schedule");
  if (e.fsz0)
    v.classes.push_back("size_passed_as_0");
  {
    Case id;
    id.seti("plen", (long long)e.P.size());
    id.seti("chunk", e.chunk);
    id.seti("T", e.T);
    id.seti("cm", e.cmode);
    id.seti("hm", e.hmode);
    id.seti("ar", c.geti("around") * 16 + c.geti("arshare"));
    id.set("h", std::to_string(fnv64(hex(e.P) + hex(e.key) + hex(e.seed))));
    v.distinct = fnv64(id.text());
  }
  // other operations of the same process around the two halves of the round trip: one with a RELATED key (sharing
  // the first `arshare` bytes) just before the encryption, one with an unrelated key between encryption and
  // decryption. Whatever the library remembers about an earlier key must not leak into this round trip.
  long around = c.geti("around"), arshare = c.geti("arshare", 8);
  auto side_op = [&](bool related) {
    EncCase o = e;
    o.P = expand(0xa0a0, 40, 0);
    o.key = e.key;
    if (related)
      for (size_t i = (size_t)arshare; i < 16; i++)
        o.key[i] ^= (uint8_t)(0x11 + 3 * i);
    else
      for (size_t i = 0; i < 16; i++)
        o.key[i] = (uint8_t)(o.key[i] * 7 + 0x3d + i);
    o.refill = 0;
    wapi::OpOut x = wapi::encrypt(o.P, o.key, bytes{'s', 'i', 'd', 'e'}, o.cmode, o.hmode, pcfg(o, wapi::SchedSpec()));
    if (x.ret && !related)
      wapi::decrypt(x.out, o.key, pcfg(o, wapi::SchedSpec()));
  };
  if (around)
    v.classes.push_back("other_operations_around_the_round_trip");
  ChildResult r = run_in_child([&]() -> bytes {
    Ser s;
    if (around & 1)
      side_op(true);
    wapi::OpOut enc = wapi::encrypt(e.P, e.key, e.seed, e.cmode, e.hmode, pcfg(e, e.s1));
    s.blob(enc.ser());
    if (enc.ret)
    {
      if (around & 2)
        side_op(false);
      wapi::OpOut dec = wapi::decrypt(enc.out, e.key, pcfg(e, e.s2));
      s.blob(dec.ser());
    }
    return s.b;
  });
  if (r.status != CH_OK)
  {
    if (r.status == CH_TIMEOUT)
    {
      v.classes.push_back("watchdog_inconclusive");
      return v;
    }
    Verdict f = Verdict::fail("round trip did not complete: " + r.describe());
    f.nontrivial = v.nontrivial;
    f.classes = v.classes;
    f.distinct = v.distinct;
    return f;
  }
  De d(r.payload);
  wapi::OpOut enc = wapi::OpOut::de(d.blob());
  auto bad = [&](const std::string &m) {
    Verdict f = Verdict::fail(m);
    f.nontrivial = v.nontrivial;
    f.classes = v.classes;
    f.distinct = v.distinct;
    return f;
  };
  if (!enc.ret)
    return bad("execute_encrypt reported failure");
  if (!enc.in_same || enc.in_writes)
    return bad("encryption modified its input file");
  wapi::OpOut dec = wapi::OpOut::de(d.blob());
  if (d.bad)
    return bad("harness: truncated child payload");
  if (!dec.ret)
    return bad("execute_decrypt reported failure on the file just written with the same key");
  if (dec.out.size() != e.P.size())
    return bad("decrypted length " + std::to_string(dec.out.size()) + " != plaintext length " + std::to_string(e.P.size()));
  if (dec.out != e.P)
  {
    size_t i = 0;
    while (i < e.P.size() && dec.out[i] == e.P[i])
      i++;
    return bad("decrypted bytes differ from the plaintext, first at offset " + std::to_string(i));
  }
  if (!dec.in_same || dec.in_writes)
    return bad("decryption modified its input file");
  if (enc.sched.preemptions + dec.sched.preemptions > 0)
    v.classes.push_back("preempted");
  return v;
}

static Case gen_c01()
{
  Case c;
  GenOpts o;
  o.max_len = 12288;
  gen_enc(c, o);
  if (g::coin(12))
  {
    c.seti("around", g::range(1, 4));
    c.seti("arshare", g::oneof<long>({1, 4, 7, 8, 9, 12, 15}));
  }
  return c;
}

static void fixed_c01(Ctx &ctx)
{
  // deterministic boundary matrix under the canonical schedule: every (cmode,hmode) x boundary lengths
  const Prop *p = find_prop("C01");
  uint64_t i = 0;
  if (ctx.mode == "prod")
  {
    // lengths around multiples of the production chunk (16 MiB), 1..3 chunks; a last byte 0x01..0x10
    // would be taken for padding if the real padding block were missing
    // k = 5: more chunks than the CLI's 4 workers, so a production-size buffer is refilled (80 MiB, also in the
    // quick tier, CTR); k = 9 (thorough): every buffer refilled twice, file size beyond 2^27
    for (int k : {1, 2, 3, 5, 9})
      for (int d : {-17, -16, -15, -1, 0, 1})
        for (int rep = 0; rep < 2; rep++)
        {
          if (k == 5 && !(d == 1 || (d == 0 && ctx.thorough())))
            continue;
          if (k == 9 && !(d == 1 && rep == 0 && ctx.thorough()))
            continue;
          // quick tier: four production-size cases (one chunk exactly, one byte less, a full padding
          // block, and 32 MiB + 1 which also crosses the production hash-buffer refill of 32 MiB)
          if (!ctx.thorough() && !((k == 1 && d == 0 && rep == 1) || (k == 1 && d == -1 && rep == 0) || (k == 1 && d == -16 && rep == 0) || (k == 2 && d == 1 && rep == 1) || (k == 5 && d == 1 && rep == 0)))
            continue;
          if (!mine(ctx, i++))
            continue;
          Case c;
          c.set("kind", "prod");
          c.seti("k", k);
          c.seti("d", d);
          c.seti("cmode", k >= 5 && d == 1 && rep == 0 ? 2 : (k + d + 20 + rep * 2) % 5);
          c.seti("hmode", (k + rep) % 3);
          c.seti("lastbyte", rep ? 0x04 : 0x10);
          eval_fixed(*p, ctx, c);
        }
    ctx.stats.info["production_size_runs"] = "k*16MiB+d, k in 1..3 with d in {-17,-16,-15,-1,0,1}, k = 5 (a refilled buffer) and 9 with d in {0,1}, CLI binary with the guard off, reference decrypts the output";
    return;
  }
  // 65 540 chunks of 16 bytes through 3 / 7 buffers: counters of 8 and 16 bits wrap inside one run
  for (int T : {3, 7})
  {
    if (!mine(ctx, i++))
      continue;
    Case c;
    c.seti("plen", 16 * 65540 + 3 + T);
    c.set("pseed", std::to_string(4242 + T));
    c.seti("pstyle", 0);
    c.setb("key", expand(77 + T, 16, 0));
    c.set("seed", hex(bytes{'l', 'o', 'n', 'g'}));
    c.seti("cmode", T == 3 ? 2 : 1);
    c.seti("hmode", T % 3);
    c.seti("T", T);
    c.seti("chunk", 16);
    c.set("sched", "k0");
    c.set("sched2", "k0");
    eval_fixed(*p, ctx, c);
  }
  for (int chunk : {16, 64})
    for (int T : {1, 2, 3, 16})
      for (int q = 0; q <= 3; q++)
        for (int r : {0, 1, 15, 16, 17, chunk - 17, chunk - 16, chunk - 15, chunk - 1})
        {
          if (r < 0 || r >= chunk)
            continue;
          if (!mine(ctx, i++))
            continue;
          Case c;
          c.seti("plen", q * chunk + r);
          c.set("pseed", std::to_string(i * 7919));
          c.seti("pstyle", 0);
          c.setb("key", expand(i, 16, 0));
          c.set("seed", hex(bytes{'s', 'e', 'e', 'd'}));
          c.seti("cmode", (long long)(i % 5));
          c.seti("hmode", (long long)(i % 3));
          c.seti("T", T);
          c.seti("chunk", chunk);
          c.set("sched", "k0");
          c.set("sched2", "k0");
          eval_fixed(*p, ctx, c);
        }
}

static PropReg reg({"C01", gen_c01, run_c01, fixed_c01, 24000, 800000, 100, "sched"});
