// C01 round trip: decrypt(encrypt(P)) == P for every length, mode and thread count.
#include "../pipe.h"

static Verdict run_c01(const Case &c)
{
  EncCase e = enc_from(c);
  Verdict v;
  uint64_t nch = nchunks_of(padded(e.P.size()), e.chunk);
  bool bnd = boundary_len(e.P.size(), e.chunk);
  v.nontrivial = e.P.size() > 0 && (nch >= 2 || bnd);
  v.classes.push_back("cmode" + std::to_string(e.cmode));
  v.classes.push_back("hmode" + std::to_string(e.hmode));
  v.classes.push_back(e.T == 1 ? "T=1" : e.T <= 4 ? "T2-4" : "T5-16");
  v.classes.push_back(nch >= 2 ? "multi_chunk" : "single_chunk");
  if (bnd)
    v.classes.push_back("boundary_len");
  if (e.P.empty())
    v.classes.push_back("empty");
  if (padded(e.P.size()) % e.chunk == 0)
    v.classes.push_back("padded_len_multiple_of_chunk");
  if ((uint64_t)e.T > nch)
    v.classes.push_back("T>chunks");
  if (e.s1.kind || e.s2.kind)
    v.classes.push_back("non_canonical_schedule");
  {
    Case id;
    id.seti("plen", (long long)e.P.size());
    id.seti("chunk", e.chunk);
    id.seti("T", e.T);
    id.seti("cm", e.cmode);
    id.seti("hm", e.hmode);
    id.set("h", std::to_string(fnv64(hex(e.P) + hex(e.key) + hex(e.seed))));
    v.distinct = fnv64(id.text());
  }
  ChildResult r = run_in_child([&]() -> bytes {
    Ser s;
    wapi::OpOut enc = wapi::encrypt(e.P, e.key, e.seed, e.cmode, e.hmode, pcfg(e, e.s1));
    s.blob(enc.ser());
    if (enc.ret)
    {
      wapi::OpOut dec = wapi::decrypt(enc.out, e.key, pcfg(e, e.s2));
      s.blob(dec.ser());
    }
    return s.b;
  });
  if (r.status != CH_OK)
  {
    if (r.status == CH_TIMEOUT)
    {
      v.classes.push_back("watchdog_inconclusive");
      return v;
    }
    Verdict f = Verdict::fail("round trip did not complete: " + r.describe());
    f.nontrivial = v.nontrivial;
    f.classes = v.classes;
    f.distinct = v.distinct;
    return f;
  }
  De d(r.payload);
  wapi::OpOut enc = wapi::OpOut::de(d.blob());
  auto bad = [&](const std::string &m) {
    Verdict f = Verdict::fail(m);
    f.nontrivial = v.nontrivial;
    f.classes = v.classes;
    f.distinct = v.distinct;
    return f;
  };
  if (!enc.ret)
    return bad("execute_encrypt reported failure");
  if (!enc.in_same || enc.in_writes)
    return bad("encryption modified its input file");
  wapi::OpOut dec = wapi::OpOut::de(d.blob());
  if (d.bad)
    return bad("harness: truncated child payload");
  if (!dec.ret)
    return bad("execute_decrypt reported failure on the file just written with the same key");
  if (dec.out.size() != e.P.size())
    return bad("decrypted length " + std::to_string(dec.out.size()) + " != plaintext length " + std::to_string(e.P.size()));
  if (dec.out != e.P)
  {
    size_t i = 0;
    while (i < e.P.size() && dec.out[i] == e.P[i])
      i++;
    return bad("decrypted bytes differ from the plaintext, first at offset " + std::to_string(i));
  }
  if (!dec.in_same || dec.in_writes)
    return bad("decryption modified its input file");
  if (enc.sched.preemptions + dec.sched.preemptions > 0)
    v.classes.push_back("preempted");
  return v;
}

static Case gen_c01()
{
  Case c;
  GenOpts o;
  gen_enc(c, o);
  return c;
}

static void fixed_c01(Ctx &ctx)
{
  // deterministic boundary matrix under the canonical schedule: every (cmode,hmode) x boundary lengths
  const Prop *p = find_prop("C01");
  uint64_t i = 0;
  for (int chunk : {16, 64})
    for (int T : {1, 2, 3, 16})
      for (int q = 0; q <= 3; q++)
        for (int r : {0, 1, 15, 16, 17, chunk - 17, chunk - 16, chunk - 15, chunk - 1})
        {
          if (r < 0 || r >= chunk)
            continue;
          if (!mine(ctx, i++))
            continue;
          Case c;
          c.seti("plen", q * chunk + r);
          c.set("pseed", std::to_string(i * 7919));
          c.seti("pstyle", 0);
          c.setb("key", expand(i, 16, 0));
          c.set("seed", hex(bytes{'s', 'e', 'e', 'd'}));
          c.seti("cmode", (long long)(i % 5));
          c.seti("hmode", (long long)(i % 3));
          c.seti("T", T);
          c.seti("chunk", chunk);
          c.set("sched", "k0");
          c.set("sched2", "k0");
          eval_fixed(*p, ctx, c);
        }
}

static PropReg reg({"C01", gen_c01, run_c01, fixed_c01, 24000, 800000, 100, "sched"});
