// C05 a modified encrypted file never decrypts successfully to different plaintext.
#include "../tamper.h"

static const char *K_D4 = "cmode-byte-unauthenticated";

// error paths: every allocation made while decrypting / verifying fails in turn, for the intact file and for
// one altered file. Whatever the code does about the failure, success must still mean "the original plaintext",
// and the altered file must not be accepted.
static Verdict run_c05_fault(const Case &c, const EncCase &e, const bytes &base)
{
  Verdict v;
  v.classes.push_back("kind=allocfault");
  if (!wapi::has_scheduler())
    return v;
  bytes alt = base;
  size_t off = 48 + 20 * (size_t)e.T + (size_t)c.geti("faultoff") % (base.size() - 48 - 20 * (size_t)e.T);
  alt[off] ^= 0x04;
  for (int altered = 0; altered < 2; altered++)
    for (int dec = 0; dec < 2; dec++)
    {
      const bytes &f = altered ? alt : base;
      FaultRun cnt = run_faulted(dec, f, e.key, e, -1);
      if (cnt.st != CH_OK)
        continue;
      long A = std::min<long>(cnt.o.allocs_seen, 300);
      for (long n = 0; n < A; n++)
      {
        FaultRun fr = run_faulted(dec, f, e.key, e, n);
        v.weight++;
        if (fr.st != CH_OK)
        {
          v.classes.push_back("fault:abnormal_end(accepted)");
          continue;
        }
        v.classes.push_back(!fr.o.fault_fired ? "fault:not_reached" : fr.o.threw ? "fault:exception" : "fault:handled_by_the_code");
        if (fr.o.fault_fired)
          v.more_distinct.push_back(fnv64(std::string(altered ? "a" : "i") + (dec ? "d" : "v") + std::to_string(n), fnv64(f.data(), f.size())));
        std::string m;
        if (altered && fr.o.ret)
          m = std::string(dec ? "decryption" : "verification") + " accepted an altered file (byte " + std::to_string(off) + " ^ 0x04)";
        else if (!altered && dec && fr.o.ret && fr.o.out != e.P)
          m = "decryption of the intact file reported success but delivered plaintext that differs from what was encrypted (" + std::to_string(fr.o.out.size()) + " bytes for " + std::to_string(e.P.size()) + ")";
        if (!m.empty())
        {
          Verdict fl = Verdict::fail(m + " when allocation #" + std::to_string(n) + " of the operation failed [cmode " + std::to_string(e.cmode) + ", hmode " + std::to_string(e.hmode) + ", T=" + std::to_string(e.T) + "]");
          fl.nontrivial = true;
          fl.classes = v.classes;
          return fl;
        }
      }
    }
  v.nontrivial = !v.more_distinct.empty();
  return v;
}

static Verdict run_c05(const Case &c)
{
  Verdict v;
  EncCase e = enc_from(c);
  std::string kind = c.get("kind", "edits");
  bytes base = base_file(e, c.geti("toolbase") != 0);
  if (kind == "allocfault" && base.size() >= 84)
    return run_c05_fault(c, e, base);
  if (base.size() < 84)
  {
    v.classes.push_back("toolbase_unavailable");
    return v;
  }
  if (c.geti("toolbase"))
    v.classes.push_back("base_written_by_the_tool");
  int hl = ref::Hash::hlen(e.hmode);
  size_t body = 48 + 20 * (size_t)e.T;
  std::vector<bytes> files;
  std::vector<std::string> labels;
  if (kind == "bitflips")
  {
    for (size_t i = 0; i < base.size(); i++)
      for (int b = 0; b < 8; b++)
      {
        bytes f = base;
        f[i] ^= (uint8_t)(1 << b);
        files.push_back(f);
        labels.push_back("X:" + std::to_string(i) + ":" + std::to_string(1 << b));
      }
  }
  else if (kind == "truncs")
  {
    for (size_t n = 0; n < base.size(); n++)
    {
      files.push_back(bytes(base.begin(), base.begin() + n));
      labels.push_back("T:" + std::to_string(n));
    }
  }
  else if (kind == "tagforge")
  {
    // forgeries against weak tag comparisons: a constant / truncated / prefix-only tag combined with many
    // different bodies (a comparison that stops early or skips bytes accepts one of them with probability
    // ~2^-8 per body instead of 2^-8*hlen)
    size_t bodylen = base.size() - body;
    for (int variant = 0; variant < 4; variant++)
      for (size_t j = 0; j < 160; j++)
      {
        bytes f = base;
        size_t off = body + (j * 7919u) % bodylen;
        f[off] ^= (uint8_t)(1 + (j * 37u) % 255);
        std::string lab = "X:" + std::to_string(off) + ":" + std::to_string(1 + (j * 37u) % 255);
        if (variant == 0)
        {
          memset(f.data() + 10, 0, hl);
          lab += ";S:10:" + std::string(2 * hl, '0');
        }
        else if (variant == 1)
        {
          memset(f.data() + 10, 0xff, hl);
          lab += ";S:10:" + hex(bytes(hl, 0xff));
        }
        else if (variant == 2)
        {
          // keep the old tag (right for the old body): accepted only if the comparison ignores most bytes
        }
        else
        {
          memset(f.data() + 10 + 1, 0, hl - 1);
          lab += ";S:11:" + std::string(2 * (hl - 1), '0');
        }
        files.push_back(f);
        labels.push_back(lab);
      }
  }
  else if (kind == "relkey")
  {
    // forgeries by someone who knows only part of the key: the body is altered and the tag recomputed (RFC 2104,
    // reference implementation) under a related key - the key cut at its first 0x00 byte, the all-zero key, the
    // first 8 bytes only, the key with bit 7 of every byte cleared. A MAC that does not use the whole key
    // accepts one of them.
    size_t bodylen = base.size() - body;
    std::vector<std::pair<std::string, bytes>> rel;
    {
      bytes k = e.key;
      size_t z = 0;
      while (z < 16 && k[z])
        z++;
      for (size_t i = z; i < 16; i++)
        k[i] = 0;
      rel.push_back({"key cut at its first 0x00 byte", k});
      rel.push_back({"all-zero key", bytes(16, 0)});
      k = e.key;
      for (size_t i = 8; i < 16; i++)
        k[i] = 0;
      rel.push_back({"first 8 key bytes only", k});
      k = e.key;
      for (auto &x : k)
        x &= 0x7f;
      rel.push_back({"key with bit 7 of every byte cleared", k});
    }
    for (auto &rk : rel)
    {
      if (rk.second == e.key)
        continue;
      for (size_t j = 0; j < 12; j++)
      {
        bytes f = base;
        size_t off = body + (j * 7919u) % bodylen;
        f[off] ^= (uint8_t)(1 + (j * 37u) % 255);
        bytes tag = ref::hmac(e.hmode, rk.second, f.data() + 48, f.size() - 48);
        memcpy(f.data() + 10, tag.data(), hl);
        files.push_back(f);
        labels.push_back("X:" + std::to_string(off) + ":" + std::to_string(1 + (j * 37u) % 255) + ";S:10:" + hex(bytes(tag.begin(), tag.begin() + hl)));
      }
    }
  }
  else if (kind == "ext")
  {
    // extensions: plain runs of zeros / 0x80 + zeros up to every alignment, and the Merkle-Damgard padding
    // a hash would have appended itself (for the authenticated range, the whole file and the body, with
    // and without HMAC's 64-byte key block in front, both length encodings), alone and followed by more data:
    // an implementation whose finalisation is skipped or repeated on some path accepts one of them
    for (size_t n = 1; n <= 64; n++)
    {
      for (int lead : {0x00, 0x80})
      {
        bytes f = base;
        f.push_back((uint8_t)lead);
        f.insert(f.end(), n - 1, 0);
        files.push_back(f);
        labels.push_back("A:" + hex(bytes(f.begin() + base.size(), f.end())));
      }
    }
    for (size_t range : {base.size() - 48, base.size(), base.size() - body})
      for (size_t prefix : {(size_t)64, (size_t)0})
        for (int be = 0; be < 2; be++)
        {
          uint64_t msg = prefix + range;
          bytes pad;
          pad.push_back(0x80);
          while ((msg + pad.size()) % 64 != 56)
            pad.push_back(0);
          uint64_t bits = msg * 8;
          for (int i = 0; i < 8; i++)
            pad.push_back((uint8_t)(be ? bits >> (56 - 8 * i) : bits >> (8 * i)));
          for (size_t extra : {(size_t)0, (size_t)16, (size_t)64})
          {
            bytes f = base;
            f.insert(f.end(), pad.begin(), pad.end());
            for (size_t i = 0; i < extra; i++)
              f.push_back((uint8_t)(0x41 + i));
            files.push_back(f);
            labels.push_back("A:" + hex(bytes(f.begin() + base.size(), f.end())));
          }
        }
    // length extension proper: if the stored tag were the plain digest of (secret prefix || authenticated range) -
    // the inner hash of HMAC without its outer pass, H(key || data) - anyone could continue the hash from the
    // stored tag without the key: range || glue padding || E with tag' = H continued from the old tag over E.
    // RFC 2104's outer pass makes that useless; every such file must be rejected.
    for (size_t prefix : {(size_t)64, (size_t)16, (size_t)0})
      for (size_t elen : {(size_t)16, (size_t)48, (size_t)5})
      {
        size_t range = base.size() - 48;
        uint64_t msg = prefix + range;
        bytes glue;
        glue.push_back(0x80);
        while ((msg + glue.size()) % 64 != 56)
          glue.push_back(0);
        uint64_t bits = msg * 8;
        for (int i = 0; i < 8; i++)
          glue.push_back((uint8_t)(e.hmode == 1 ? bits >> (8 * i) : bits >> (56 - 8 * i)));
        bytes f = base;
        f.insert(f.end(), glue.begin(), glue.end());
        // keep the body a whole number of cipher blocks where the extension length allows it
        size_t want = elen;
        while (elen != 5 && (f.size() + want - body) % 16 != 0)
          want++;
        bytes E;
        for (size_t i = 0; i < want; i++)
          E.push_back((uint8_t)(0x61 + i % 23));
        f.insert(f.end(), E.begin(), E.end());
        ref::Hash hh(e.hmode);
        int words = e.hmode == 0 ? 5 : e.hmode == 1 ? 4 : 8;
        for (int w = 0; w < words; w++)
        {
          const uint8_t *t = base.data() + 10 + 4 * w;
          hh.h[w] = e.hmode == 1 ? ((uint32_t)t[0] | (uint32_t)t[1] << 8 | (uint32_t)t[2] << 16 | (uint32_t)t[3] << 24)
                                 : ((uint32_t)t[0] << 24 | (uint32_t)t[1] << 16 | (uint32_t)t[2] << 8 | (uint32_t)t[3]);
        }
        hh.len = msg + glue.size();
        hh.update(E.data(), E.size());
        bytes tag = hh.final();
        memcpy(f.data() + 10, tag.data(), hl);
        files.push_back(f);
        labels.push_back("A:" + hex(bytes(f.begin() + base.size(), f.end())) + ";S:10:" + hex(bytes(tag.begin(), tag.begin() + hl)));
      }
  }
  else if (kind == "hdr")
  {
    for (int off : {8, 9})
      for (int val = 0; val < 256; val++)
      {
        if (base[off] == val)
          continue;
        bytes f = base;
        f[off] = (uint8_t)val;
        files.push_back(f);
        labels.push_back("S:" + std::to_string(off) + ":" + hex(bytes{(uint8_t)val}));
      }
  }
  else if (kind == "hdr2")
  {
    // two alterations at once: a mode byte (offset 8 or 9, every value) AND something that carries information - a
    // flipped bit in the IV table or the ciphertext, a dropped or a doubled last block. Whatever the code concludes
    // from the mode byte (an unknown hash, another cipher), the second alteration must not get through with it.
    size_t pos = 48 + (size_t)(c.geti("hpos") % (long)(base.size() - 48));
    uint8_t bit = (uint8_t)(1 << (c.geti("hpos") % 8));
    // header offsets that carry no authenticated information: the two mode bytes (every value) and the blank bytes
    // between the tag and offset 48 (a few values each)
    std::vector<std::pair<int, int>> hv;
    for (int off : {8, 9})
      for (int val = 0; val < 256; val++)
        hv.push_back({off, val});
    for (int off = 10 + hl; off < 48; off++)
      for (int val : {1, 0x80, 0xff})
        hv.push_back({off, val});
    for (auto &ov : hv)
      {
        int off = ov.first, val = ov.second;
        if (base[off] == val)
          continue;
        bytes f = base;
        f[off] = (uint8_t)val;
        std::string lab = "S:" + std::to_string(off) + ":" + hex(bytes{(uint8_t)val});
        int second = (val + off + (int)c.geti("hpos")) % 4;
        if (second <= 1)
        {
          f[pos] ^= bit;
          lab += ";X:" + std::to_string(pos) + ":" + std::to_string(bit);
        }
        else if (second == 2)
        {
          f.resize(f.size() - 16);
          lab += ";T:" + std::to_string(f.size());
        }
        else
        {
          bytes last(f.end() - 16, f.end());
          f.insert(f.end(), last.begin(), last.end());
          lab += ";A:" + hex(last);
        }
        files.push_back(f);
        labels.push_back(lab);
      }
  }
  else
  {
    files.push_back(apply_edits(base, c.get("edits")));
    labels.push_back(c.get("edits"));
  }
  // the intact file goes first through the same process: a modified file must be rejected no matter what
  // was accepted before it
  files.insert(files.begin(), base);
  labels.insert(labels.begin(), "");
  v.classes.push_back("kind=" + kind);
  v.classes.push_back("cmode" + std::to_string(e.cmode));
  v.weight = files.size();
  std::vector<DV> res = batch_dv(files, {e.key}, e.T, e.chunk, e.refill);
  if (files.size() > 1 && res[0].evaluated && res[0].st != CH_OK)
  {
    // the intact file did not get through normally (not C05's subject): judge the altered files without it
    v.classes.push_back("intact_file_run_abnormal_see_C01_C04_C11");
    files.erase(files.begin());
    labels.erase(labels.begin());
    res = batch_dv(files, {e.key}, e.T, e.chunk, e.refill);
  }
  size_t known_hits = 0;
  bool intact_ok = true;
  for (size_t i = 0; i < files.size(); i++)
  {
    const bytes &f = files[i];
    const DV &r = res[i];
    if (!r.evaluated || r.st == CH_TIMEOUT)
      continue;
    if (f == base)
    {
      if (r.st == CH_OK && (!r.vret || !r.dret || r.dout != e.P))
      {
        // not a statement of C05 (C01 / C02 / C12 decide it): the altered files are still judged, with no
        // expectation derived from this base
        v.classes.push_back("intact_file_not_accepted_see_C01_C02_C12");
        intact_ok = false;
      }
      if (i > 0)
        v.classes.push_back("edit_is_identity");
      continue;
    }
    // information-carrying region touched?
    bool info = f.size() != base.size();
    std::vector<size_t> diffs = diff_offsets(f, base);
    for (size_t o : diffs)
      if (o < 10 + (size_t)hl || o >= 48)
        info = true;
    if (info)
      v.more_distinct.push_back(fnv64(f.data(), f.size(), fnv64(hex(e.key))));
    std::string m;
    if (r.st != CH_OK)
      m = "verify/decrypt of the modified file did not terminate normally: " + r.detail;
    else if (r.dret && r.dout != e.P)
      m = "decryption reported success but delivered plaintext that differs from what was encrypted";
    else if (r.vret && !r.dret)
      m = "verification accepted the modified file although decryption does not restore the plaintext";
    if (r.st == CH_OK)
      v.classes.push_back(r.dret ? "accepted_harmless_or_not" : "rejected");
    if (m.empty())
      continue;
    // known finding D4: only the cipher-mode byte (and possibly the zero padding after the tag) was altered
    // to another valid mode; the tag does not cover offset 8
    bool only_mode = f.size() == base.size() && f[8] != base[8] && f[8] <= 4;
    for (size_t o : diffs)
      if (!(o == 8 || (o >= 10 + (size_t)hl && o < 48)))
        only_mode = false;
    if (only_mode && r.st == CH_OK && r.dret && finding_listed("C05", K_D4))
    {
      known_hits++;
      continue;
    }
    Verdict fl = Verdict::fail(m + " [edit " + labels[i] + " on a " + std::to_string(base.size()) + "-byte file, cmode " + std::to_string(e.cmode) + ", hmode " + std::to_string(e.hmode) + ", T=" + std::to_string(e.T) + "]");
    fl.nontrivial = true;
    fl.slow = r.detail.find("again within 180 s") != std::string::npos;
    fl.classes = v.classes;
    Case rc = c;
    rc.set("kind", "edits");
    rc.set("edits", labels[i]);
    fl.replay_text = rc.text();
    return fl;
  }
  v.nontrivial = !v.more_distinct.empty() && intact_ok;
  if (known_hits)
  {
    v.known = K_D4;
    v.msg = "cipher-mode byte altered to another valid mode: success with different plaintext";
    v.ok = false;
  }
  (void)body;
  return v;
}

static void gen_base5(Case &c)
{
  GenOpts o;
  o.maxT = 4;
  o.chunks = {16, 32, 64};
  o.max_len = 400;
  o.schedules = false;
  gen_enc(c, o);
}

static Case gen_c05()
{
  Case c;
  gen_base5(c);
  c.seti("toolbase", g::coin(50) ? 1 : 0);
  long k = g::range(0, 100);
  size_t plen = (size_t)c.geti("plen");
  int T = (int)c.geti("T"), chunk = (int)c.geti("chunk");
  int hl = ref::Hash::hlen((int)c.geti("hmode"));
  size_t flen = 48 + 20 * (size_t)T + 16 * (plen / 16 + 1);
  size_t body = 48 + 20 * (size_t)T;
  if (k < 4)
  {
    c.set("kind", "bitflips");
    return c;
  }
  if (k < 8)
  {
    c.set("kind", "truncs");
    return c;
  }
  if (k < 10)
  {
    c.set("kind", "hdr");
    return c;
  }
  if (k < 12)
  {
    c.set("kind", "hdr2");
    c.seti("hpos", g::range(0, 1000000));
    return c;
  }
  if (k < 17)
  {
    c.set("kind", "tagforge");
    return c;
  }
  if (k < 21)
  {
    c.set("kind", "ext");
    return c;
  }
  if (k < 27)
  {
    c.set("kind", "relkey");
    if (g::coin(60))
    {
      bytes key = c.getb("key");
      key[(size_t)(g::coin(50) ? 0 : g::range(0, 16))] = 0; // a 0x00 key byte (1 random key in 16 has one)
      c.setb("key", key);
    }
    return c;
  }
  if (k < 29 && wapi::has_scheduler())
  {
    c.set("kind", "allocfault");
    c.seti("faultoff", g::range(0, 4096));
    return c;
  }
  c.set("kind", "edits");
  std::vector<long> marks = {0, 8, 9, 10, 10 + hl, 48, 48 + 20, (long)body, (long)flen - 16, (long)flen};
  std::string s;
  long n = g::range(1, 4);
  size_t nblocks = (flen - body) / 16;
  for (long i = 0; i < n; i++)
  {
    if (!s.empty())
      s += ";";
    long off = g::coin(50) ? marks[(size_t)g::range(0, (long)marks.size())] : g::range(0, (long)flen + 1);
    off = std::max(0L, std::min(off, (long)flen));
    switch (g::range(0, 10))
    {
    case 0:
      s += "X:" + std::to_string(std::min<long>(off, (long)flen - 1)) + ":" + std::to_string(1 << g::range(0, 8));
      break;
    case 1:
      s += "S:" + std::to_string(off) + ":" + hex(g::raw((size_t)g::range(1, 20)));
      break;
    case 2:
      s += "I:" + std::to_string(off) + ":" + hex(g::raw((size_t)g::oneof<long>({1, 15, 16, 17, 20, 32})));
      break;
    case 3:
      s += "D:" + std::to_string(off) + ":" + std::to_string(g::oneof<long>({1, 15, 16, 17, 20, 32}));
      break;
    case 4:
      s += "T:" + std::to_string(off);
      break;
    case 5:
      s += "A:" + hex(g::raw((size_t)g::oneof<long>({1, 15, 16, 17, 32})));
      break;
    case 6: // swap two 16-byte blocks of the body
      if (nblocks >= 2)
      {
        long a = g::range(0, (long)nblocks), b = g::range(0, (long)nblocks);
        if (a != b)
          s += "W:" + std::to_string(body + 16 * a) + ":" + std::to_string(body + 16 * b) + ":16";
      }
      break;
    case 7: // swap two chunks
    {
      size_t nch = (flen - body) / (size_t)chunk;
      if (nch >= 2)
      {
        long a = g::range(0, (long)nch), b = g::range(0, (long)nch);
        if (a != b)
          s += "W:" + std::to_string(body + chunk * a) + ":" + std::to_string(body + chunk * b) + ":" + std::to_string(chunk);
      }
      break;
    }
    case 8: // swap two IV slots
      if (T >= 2)
      {
        long a = g::range(0, T), b = g::range(0, T);
        if (a != b)
          s += "W:" + std::to_string(48 + 20 * a) + ":" + std::to_string(48 + 20 * b) + ":20";
      }
      break;
    default: // overwrite the tag with random bytes / bytes in the tag padding
      if (g::coin(50))
        s += "S:10:" + hex(g::raw((size_t)hl));
      else
        s += "S:" + std::to_string(10 + hl + g::range(0, 38 - hl)) + ":" + hex(g::raw(1));
    }
  }
  c.set("edits", s);
  return c;
}

static void fixed_c05(Ctx &ctx)
{
  const Prop *p = find_prop("C05");
  uint64_t i = 0;
  // exhaustive single-bit flips, truncations and mode-byte sweeps of one small file per (cmode, hmode)
  for (int cm = 0; cm < 5; cm++)
    for (int hm = 0; hm < 3; hm++)
      for (const char *kind : {"bitflips", "truncs", "hdr", "hdr2", "tagforge", "ext", "ext/tool", "relkey"})
      {
        if (!mine(ctx, i++))
          continue;
        Case c;
        c.set("kind", std::string(kind).substr(0, std::string(kind).find('/')));
        if (std::string(kind).find('/') != std::string::npos)
          c.seti("toolbase", 1);
        c.seti("plen", 20 + 16 * cm + hm);
        c.set("pseed", std::to_string(cm * 10 + hm + 500));
        c.seti("pstyle", 0);
        {
          bytes key = expand(cm * 3 + hm + 77, 16, 0);
          if (std::string(kind) == "relkey")
            key[(size_t)((cm + hm) % 2 ? 0 : 5)] = 0;
          c.setb("key", key);
        }
        c.setb("seed", bytes{'i', 'v', '5'});
        c.seti("cmode", cm);
        c.seti("hmode", hm);
        c.seti("T", 1 + (cm + hm) % 3);
        c.seti("chunk", 32);
        eval_fixed(*p, ctx, c);
      }
  ctx.stats.info["exhaustive_per_base_file"] = "every single-bit flip, every truncation length, all 255 other values of bytes 8 and 9, for one file per (cmode,hmode) and for ~12% of the generated base files";
}

static PropReg reg({"C05", gen_c05, run_c05, fixed_c05, 16000, 400000, 100, "sched"});
