// C18 each cipher stream in a file starts from its own seed-dependent IV.
#include "../tamper.h"

static const char *K_D9 = "all-streams-start-from-iv-slot-0";

static Verdict run_c18(const Case &c)
{
  Verdict v;
  EncCase e = enc_from(c);
  bytes seed2 = c.getb("seed2");
  for (auto &x : seed2)
    if (!x)
      x = 0x5a;
  wapi::PipeCfg pc = pcfg(e, e.s1);
  auto bad = [&](const std::string &m) {
    Verdict f = Verdict::fail(m + " [cmode " + std::to_string(e.cmode) + ", T=" + std::to_string(e.T) + ", chunk " + std::to_string(e.chunk) + ", plaintext " + std::to_string(e.P.size()) + " bytes]");
    f.nontrivial = true;
    f.classes = v.classes;
    return f;
  };
  ChildResult r = run_in_child([&]() {
    Ser s;
    // when both encryptions use the same seed they are handed the same seed BUFFER (a caller that collects its random
    // text once): the second file must still carry the IV chain of that seed
    bytes sb = e.seed;
    sb.push_back(0);
    wapi::PipeCfg pc1 = pc, pc2 = pc;
    if (seed2 == e.seed)
      pc1.seed_buf = pc2.seed_buf = sb.data();
    s.blob(wapi::encrypt(e.P, e.key, e.seed, e.cmode, e.hmode, pc1).ser());
    s.blob(wapi::encrypt(e.P, e.key, seed2, e.cmode, e.hmode, pc2).ser());
    return s.b;
  });
  if (r.status == CH_TIMEOUT)
    return v;
  if (r.status != CH_OK)
    return bad("encryption did not complete: " + r.describe());
  De d(r.payload);
  wapi::OpOut a = wapi::OpOut::de(d.blob()), b = wapi::OpOut::de(d.blob());
  size_t body = 48 + 20 * (size_t)e.T;
  bytes pp = ref::pkcs7_pad(e.P);
  if (!a.ret || !b.ret || a.out.size() != body + pp.size() || b.out.size() != a.out.size())
    return bad("encryption failed or produced a file of unexpected length");
  size_t nch = (pp.size() + e.chunk - 1) / e.chunk;
  size_t nstreams = std::min<size_t>(nch, (size_t)e.T);
  static const char *mn[5] = {"ECB", "CBC", "CTR", "CFB", "OFB"};
  v.classes.push_back(mn[e.cmode % 5]);
  v.nontrivial = nstreams >= 2;
  v.classes.push_back(nstreams >= 2 ? "streams>=2" : "streams<2");
  if (nch > (size_t)e.T)
    v.classes.push_back("some_stream_has_2+_chunks");
  {
    Case id;
    id.seti("plen", (long long)e.P.size());
    id.seti("chunk", e.chunk);
    id.seti("T", e.T);
    id.seti("cm", e.cmode);
    id.set("h", std::to_string(fnv64(hex(e.P) + hex(e.key) + hex(e.seed))));
    v.distinct = fnv64(id.text());
  }
  // (a) header IV slots: SHA-1 chain of the seed, pairwise distinct, seed dependent
  bytes chain = ref::iv_chain(e.seed, e.T);
  if (memcmp(a.out.data() + 48, chain.data(), chain.size()) != 0)
    return bad("header IV slots are not the SHA-1 chain of the seed");
  for (int i = 0; i < e.T; i++)
    for (int j = i + 1; j < e.T; j++)
      if (memcmp(a.out.data() + 48 + 20 * i, a.out.data() + 48 + 20 * j, 16) == 0)
        return bad("header IV slots " + std::to_string(i) + " and " + std::to_string(j) + " are equal");
  {
    // the second file (other seed, or the same seed handed over in the same buffer) carries the chain of ITS seed
    bytes chain2 = ref::iv_chain(seed2, e.T);
    if (memcmp(b.out.data() + 48, chain2.data(), chain2.size()) != 0)
      return bad(seed2 == e.seed ? "header IV slots of a second encryption that was handed the same seed buffer are not the SHA-1 chain of the seed" : "header IV slots of the second file are not the SHA-1 chain of its seed");
  }
  if (seed2 != e.seed)
  {
    if (memcmp(a.out.data() + 48, b.out.data() + 48, 16) == 0)
      return bad("two different seeds give the same first IV: the IVs do not depend on the seed");
    if (e.cmode != 0 && !pp.empty() && memcmp(a.out.data() + body, b.out.data() + body, pp.size()) == 0)
      return bad("two different seeds give the same ciphertext body in a non-ECB mode");
    v.classes.push_back("two_seeds_compared");
  }
  if (e.cmode == 0 || nstreams < 2)
    return v;
  // (b) the IV every stream actually started from, recovered from the ciphertext with the reference cipher
  ref::Aes128 aes(e.key.data());
  std::vector<bytes> start(nstreams, bytes(16));
  for (size_t s = 0; s < nstreams; s++)
  {
    const uint8_t *C0 = a.out.data() + body + s * e.chunk;
    const uint8_t *P0 = pp.data() + s * e.chunk;
    uint8_t t[16], x[16];
    if (e.cmode == 1)
    {
      aes.dec(C0, t);
      for (int i = 0; i < 16; i++)
        start[s][i] = t[i] ^ P0[i];
    }
    else
    {
      for (int i = 0; i < 16; i++)
        x[i] = C0[i] ^ P0[i];
      aes.dec(x, t);
      memcpy(start[s].data(), t, 16);
    }
  }
  std::string reuse;
  bool all_slot0 = true;
  for (size_t s = 0; s < nstreams; s++)
    if (memcmp(start[s].data(), a.out.data() + 48, 16) != 0)
      all_slot0 = false;
  for (size_t s = 0; s < nstreams && reuse.empty(); s++)
    for (size_t t2 = s + 1; t2 < nstreams; t2++)
      if (start[s] == start[t2])
      {
        reuse = "streams " + std::to_string(s) + " and " + std::to_string(t2) + " were started from the same IV " + hex(start[s]);
        break;
      }
  // (c) consequences: keystream reuse in CTR/OFB, equal plaintext chunks -> equal ciphertext chunks.
  // The known finding (every stream starts from slot 0) explains exactly the collisions between DIFFERENT
  // streams at the SAME position within their streams; anything else (reuse inside one stream, or at different
  // positions) is not covered by it and is reported whether or not the finding is listed.
  std::string conseq, unexplained;
  size_t bpc = (size_t)e.chunk / 16; // blocks per chunk
  auto where = [&](size_t blk, size_t &stream, size_t &idx) {
    size_t ch = blk / bpc;
    stream = ch % (size_t)e.T;
    idx = (ch / (size_t)e.T) * bpc + blk % bpc; // block ordinal within its stream
  };
  if (e.cmode == 2 || e.cmode == 4)
  {
    std::map<std::string, size_t> ks;
    for (size_t o = 0; o + 16 <= pp.size(); o += 16)
    {
      uint8_t x[16];
      for (int i = 0; i < 16; i++)
        x[i] = a.out[body + o + i] ^ pp[o + i];
      auto ins = ks.insert({hex(x, 16), o / 16});
      if (!ins.second)
      {
        size_t s1, i1, s2, i2;
        where(ins.first->second, s1, i1);
        where(o / 16, s2, i2);
        std::string m = "the keystream block of body block " + std::to_string(ins.first->second) + " (stream " + std::to_string(s1) + ", position " + std::to_string(i1) + ") is used again for body block " + std::to_string(o / 16) + " (stream " + std::to_string(s2) + ", position " + std::to_string(i2) + ")";
        if (conseq.empty())
          conseq = m;
        if ((s1 == s2 || i1 != i2) && unexplained.empty())
          unexplained = m;
      }
    }
  }
  for (size_t i = 0; i < nch; i++)
    for (size_t j = i + 1; j < nch; j++)
    {
      size_t li = std::min<size_t>(e.chunk, pp.size() - i * e.chunk), lj = std::min<size_t>(e.chunk, pp.size() - j * e.chunk);
      if (li == lj && li >= 16 && memcmp(pp.data() + i * e.chunk, pp.data() + j * e.chunk, li) == 0 && memcmp(a.out.data() + body + i * e.chunk, a.out.data() + body + j * e.chunk, li) == 0)
      {
        std::string m = "equal plaintext chunks " + std::to_string(i) + " and " + std::to_string(j) + " produced equal ciphertext chunks";
        if (conseq.empty())
          conseq = m;
        bool same_round_other_stream = (i / (size_t)e.T == j / (size_t)e.T);
        if (!same_round_other_stream && unexplained.empty())
          unexplained = m + " (chunks of the same stream, or at different positions of their streams)";
      }
    }
  if (!unexplained.empty())
    return bad(unexplained);
  if (reuse.empty() && conseq.empty())
    return v;
  // known finding D9: every stream is constructed from header slot 0
  if (all_slot0 && finding_listed("C18", K_D9))
  {
    v.ok = false;
    v.known = K_D9;
    v.msg = reuse.empty() ? conseq : reuse;
    return v;
  }
  return bad(!reuse.empty() ? reuse + (conseq.empty() ? "" : "; consequence: " + conseq) : conseq);
}

static Case gen_c18()
{
  Case c;
  GenOpts o;
  o.minT = 2;
  o.maxT = 16;
  o.chunks = {16, 32, 64};
  o.max_len = 4096;
  o.schedules = false;
  gen_enc(c, o);
  int T = (int)c.geti("T"), chunk = (int)c.geti("chunk");
  // at least T+1 chunks most of the time: every stream carries data and one carries two chunks
  if (g::coin(75))
  {
    long q = T + 1 + g::range(0, 3);
    if (q * chunk > 4000)
      q = 4000 / chunk;
    c.seti("plen", q * chunk - 1 - g::range(0, 16));
  }
  // now and then one stream carries several hundred blocks (a counter or feedback register that wraps early
  // repeats its keystream inside the stream)
  if (g::coin(6))
  {
    long Tn = g::range(2, 4);
    c.seti("T", Tn);
    c.seti("chunk", 64);
    c.seti("plen", 16 * (Tn * g::range(258, 300) + g::range(0, 8)) - 1 - g::range(0, 16));
  }
  // ... and, rarely, several thousand blocks (keystream generated in batches of 2^10 / 2^11 blocks)
  if (g::coin(2))
  {
    long Tn = g::range(2, 4);
    c.seti("T", Tn);
    c.seti("chunk", wapi::chunk_capacity());
    c.seti("plen", 16 * (Tn * g::oneof<long>({1030, 1100, 2050, 2100, 4100}) + g::range(0, 8)) - 1 - g::range(0, 16));
  }
  c.seti("cmode", g::coin(90) ? g::range(1, 5) : 0);
  c.seti("pstyle", g::coin(50) ? 1 : g::coin(50) ? 3 : 0); // equal chunks half of the time
  c.setb("seed2", g::coin(85) ? gen_seed() : c.getb("seed"));
  return c;
}

static void fixed_c18(Ctx &ctx)
{
  const Prop *p = find_prop("C18");
  uint64_t i = 0;
  for (int cm = 1; cm < 5; cm++)
    for (int T : {2, 3, 4, 16})
    {
      if (!mine(ctx, i++))
        continue;
      Case c;
      int chunk = 32;
      c.seti("plen", (T + 1) * chunk - 3);
      c.set("pseed", "9");
      c.seti("pstyle", 1);
      c.setb("key", expand(cm * 17 + T, 16, 0));
      c.setb("seed", bytes{'a', 'b', 'c'});
      c.setb("seed2", bytes{'a', 'b', 'd'});
      c.seti("cmode", cm);
      c.seti("hmode", T % 3);
      c.seti("T", T);
      c.seti("chunk", chunk);
      eval_fixed(*p, ctx, c);
      if (T == 2)
      {
        // 2 streams x 260 blocks: more than 256 blocks through one stream
        c.seti("chunk", 64);
        c.seti("plen", 16 * 520 - 5);
        c.seti("pstyle", 0);
        eval_fixed(*p, ctx, c);
        // 2 streams x 2100 blocks (a keystream cache / batch of 1024 or 2048 blocks would show), equal chunks
        c.seti("chunk", 256);
        c.seti("plen", 16 * 4200 - 5);
        c.seti("pstyle", 1);
        eval_fixed(*p, ctx, c);
      }
    }
}

static PropReg reg({"C18", gen_c18, run_c18, fixed_c18, 16000, 500000, 100, "sched"});
