// C08 authentication tag is RFC 2104 HMAC over IVs+ciphertext, stored at offset 10.
#include "../pipe.h"

static Verdict run_c08(const Case &c)
{
  Verdict v;
  std::string kind = c.get("kind", "msg");
  int hmode = (int)c.geti("hmode");
  int hl = ref::Hash::hlen(hmode);
  bytes key = c.getb("key");
  key.resize(16);
  static const char *hn[3] = {"sha1", "md5", "sha256"};
  v.classes.push_back(std::string("hmac-") + hn[hmode % 3] + "/" + kind);
  auto bad = [&](const std::string &m) {
    Verdict f = Verdict::fail(std::string("HMAC-") + hn[hmode % 3] + ": " + m);
    f.nontrivial = v.nontrivial;
    f.classes = v.classes;
    f.distinct = v.distinct;
    return f;
  };
  if (kind == "big")
  {
    // messages of 2^29 bytes and more (the inner hash input crosses 2^32 bits), streamed from a synthetic file
    uint64_t len = strtoull(c.get("len", "0").c_str(), NULL, 10), pos = (uint64_t)c.geti("pos", 0);
    uint32_t pat = (uint32_t)c.geti("pat", 1);
    v.nontrivial = true;
    v.distinct = fnv64(c.text());
    v.classes.push_back(64 + len - pos >= (1ull << 29) ? "inner_hash_input>=2^32_bits" : "inner_hash_input_just_below_2^32_bits");
    bytes want;
    {
      bytes kb = key;
      kb.resize(64, 0);
      bytes ip(64), op(64);
      for (int i = 0; i < 64; i++)
      {
        ip[(size_t)i] = kb[(size_t)i] ^ 0x36;
        op[(size_t)i] = kb[(size_t)i] ^ 0x5c;
      }
      ref::Hash in(hmode);
      in.update(ip.data(), 64);
      static uint8_t buf[1 << 16];
      for (uint64_t off = pos; off < len;)
      {
        size_t n = (size_t)std::min<uint64_t>(sizeof buf, len - off);
        for (size_t i = 0; i < n; i++)
          buf[i] = wapi::synth_byte(off + i, pat);
        in.update(buf, n);
        off += n;
      }
      bytes ih = in.final();
      ref::Hash out(hmode);
      out.update(op.data(), 64);
      out.update(ih.data(), ih.size());
      want = out.final();
    }
    bool acc = false;
    bytes got = wapi::hmac_synth(hmode, key, len, pat, pos, &want, &acc);
    if (got != want)
      return bad("tag over a synthetic " + std::to_string(len - pos) + "-byte message is " + hex(got) + ", RFC 2104 gives " + hex(want));
    if (!acc)
      return bad("cmphmac rejects the RFC 2104 tag of a synthetic " + std::to_string(len - pos) + "-byte message");
    return v;
  }
  if (kind == "file")
  {
    EncCase e = enc_from(c);
    v.nontrivial = true;
    {
      Case id;
      id.seti("plen", (long long)e.P.size());
      id.seti("T", e.T);
      id.seti("hm", e.hmode);
      id.set("h", std::to_string(fnv64(hex(e.P) + hex(e.key) + hex(e.seed))));
      v.distinct = fnv64(id.text());
    }
    ChildResult r = run_in_child([&]() -> bytes { return wapi::encrypt(e.P, e.key, e.seed, e.cmode, e.hmode, pcfg(e, e.s1)).ser(); });
    if (r.status == CH_TIMEOUT)
    {
      v.nontrivial = false;
      return v;
    }
    if (r.status != CH_OK)
      return bad("encryption did not complete: " + r.describe());
    wapi::OpOut o = wapi::OpOut::de(r.payload);
    if (!o.ret || o.out.size() < 48 + 20 * (size_t)e.T)
      return bad("encryption failed or file too short");
    bytes tag = ref::hmac(hmode, e.key, o.out.data() + 48, o.out.size() - 48);
    if (memcmp(o.out.data() + 10, tag.data(), hl) != 0)
      return bad("tag at offset 10 is not the RFC 2104 HMAC over [48,EOF): file has " + hex(o.out.data() + 10, hl) + ", expected " + hex(tag));
    for (size_t i = 10 + hl; i < 48; i++)
      if (o.out[i] != 0)
        return bad("byte " + std::to_string(i) + " between the tag and offset 48 is not zero");
    size_t inner = 64 + o.out.size() - 48;
    v.classes.push_back(inner % 64 >= 56 ? "inner_len_mod64>=56" : "inner_len_mod64<56");
    return v;
  }
  if (kind == "seq")
  {
    // one hmac object, several calls with different hash modes / keys / messages: every call must be right
    int n = (int)c.geti("n", 3);
    Sm64 r((uint64_t)strtoull(c.get("pseed", "0").c_str(), NULL, 10));
    std::vector<wapi::HmacCall> calls;
    std::vector<bytes> want;
    for (int i = 0; i < n; i++)
    {
      wapi::HmacCall hc;
      hc.hmode = (int)r.below(3);
      hc.key = expand(r.next(), 16, 0);
      size_t len = (size_t)r.below(200);
      hc.pos = (size_t)r.below(8);
      hc.file = expand(r.next(), hc.pos + len, 0);
      if (i > 0 && c.geti("samestream") && r.below(3) == 0)
      {
        // the stream of the previous call is handed over as it was left: at its end. The tag covers "the bytes from
        // the current file position to end of file": none.
        hc.same_stream = true;
        len = 0;
        hc.file = calls.back().file;
        hc.pos = hc.file.size();
      }
      bytes tag = ref::hmac(hc.hmode, hc.key, hc.file.data() + hc.pos, len);
      hc.kind = (int)r.below(2);
      if (hc.kind == 1)
      {
        hc.tag64 = tag;
        bool flip = r.below(2);
        if (flip)
          hc.tag64[r.below(hc.tag64.size())] ^= (uint8_t)(1 << r.below(8));
        hc.tag64.resize(64, 0x3c);
        want.push_back(bytes(1, flip ? 0 : 1));
      }
      else
        want.push_back(tag);
      calls.push_back(hc);
    }
    v.nontrivial = true;
    v.distinct = fnv64("seq" + c.get("pseed") + c.get("samestream"));
    for (auto &hc : calls)
      if (hc.same_stream)
      {
        v.classes.push_back("call_on_a_stream_left_at_its_end_by_the_previous_call");
        break;
      }
    std::vector<bytes> got = wapi::hmac_seq(calls, (int)c.geti("refill", 2));
    for (int i = 0; i < n; i++)
      if (got[i] != want[i])
        return bad("call " + std::to_string(i + 1) + " of " + std::to_string(n) + " on one hmac object (" + (calls[i].kind ? "cmphmac" : "gethmac") + ", hmode " + std::to_string(calls[i].hmode) + " after hmode " + std::to_string(i ? calls[i - 1].hmode : -1) + ") gave " + hex(got[i]) + ", expected " + hex(want[i]));
    return v;
  }
  size_t mlen = (size_t)c.geti("len");
  size_t pos = (size_t)c.geti("pos");
  int refill = (int)c.geti("refill", 2);
  bytes file = expand((uint64_t)strtoull(c.get("pseed", "0").c_str(), NULL, 10), pos + mlen, (int)c.geti("pstyle"));
  v.nontrivial = mlen >= 1;
  {
    Case id;
    id.set("kind", kind);
    id.seti("hm", hmode);
    id.set("k", hex(key));
    id.seti("pos", (long long)pos);
    id.set("h", std::to_string(fnv64(file.data(), file.size())));
    v.distinct = fnv64(id.text());
  }
  v.classes.push_back((64 + mlen) % 64 >= 56 ? "inner_len_mod64>=56" : "inner_len_mod64<56");
  if (pos)
    v.classes.push_back("nonzero_start_offset");
  if (mlen >= (size_t)refill * 64)
    v.classes.push_back("refilled");
  bytes want = ref::hmac(hmode, key, file.data() + pos, mlen);
  if (kind == "write")
  {
    // writeFileHmac(hashMark, writeMark): hash from hashMark to EOF, store at writeMark, touch nothing else
    size_t hm = (size_t)c.geti("hash_mark"), wm = (size_t)c.geti("write_mark");
    if (file.size() < std::max(hm, wm + hl))
      file.resize(std::max(hm, wm + hl) + 1, 0x11);
    bytes w2 = ref::hmac(hmode, key, file.data() + hm, file.size() - hm);
    bytes after = wapi::hmac_write(hmode, key, file, hm, wm, refill);
    bytes expect = file;
    memcpy(expect.data() + wm, w2.data(), hl);
    if (after != expect)
    {
      size_t i = 0;
      while (i < after.size() && i < expect.size() && after[i] == expect[i])
        i++;
      return bad("writeFileHmac result differs at offset " + std::to_string(i) + " (hash from " + std::to_string(hm) + ", store at " + std::to_string(wm) + ")");
    }
    return v;
  }
  int how = (int)c.geti("how", 0);
  if (how)
    v.classes.push_back(how == 1 ? "stream_is_a_pipe" : "stream_is_a_pipe_after_a_header_was_read");
  bytes got = wapi::hmac_get(hmode, key, file, pos, refill, how);
  if ((int)got.size() != hl)
    return bad("tag length " + std::to_string(got.size()));
  if (got != want)
    return bad("tag over the " + std::to_string(mlen) + " bytes from position " + std::to_string(pos) + " is " + hex(got) + ", RFC 2104 gives " + hex(want));
  // comparison: accepts the right tag (whatever follows it), rejects every one-bit neighbour
  bytes t64 = want;
  t64.resize(64, 0xC7);
  if (!wapi::hmac_cmp(hmode, key, file, pos, t64, refill, how))
    return bad("comparison rejects the correct tag");
  bool all_bits = c.geti("allbits") != 0;
  uint64_t which = (uint64_t)c.geti("bit");
  for (int bit = 0; bit < 8 * hl; bit++)
  {
    if (!all_bits && bit != (int)(which % (8 * hl)) && bit != 8 * hl - 1 && bit != 0)
      continue;
    bytes t = t64;
    t[bit / 8] ^= (uint8_t)(1 << (bit % 8));
    if (wapi::hmac_cmp(hmode, key, file, pos, t, refill, how))
      return bad("comparison accepts a tag that differs in bit " + std::to_string(bit));
  }
  if (all_bits)
    v.classes.push_back("all_one_bit_neighbours_rejected");
  return v;
}

static Case gen_c08()
{
  Case c;
  long k = g::range(0, 100);
  c.seti("hmode", g::range(0, 3));
  if (k < 15 && wapi::has_scheduler())
  {
    GenOpts o;
    o.maxT = 8;
    o.schedules = false;
    gen_enc(c, o);
    c.set("kind", "file");
    return c;
  }
  if (k >= 30 && k < 45)
  {
    c.set("kind", "seq");
    c.seti("n", g::range(2, 6));
    c.set("pseed", std::to_string(g::u64()));
    c.seti("refill", g::oneof<long>({1, 2, 4}));
    c.seti("samestream", g::coin(40) ? 1 : 0);
    return c;
  }
  c.set("kind", k < 30 ? "write" : "msg");
  c.setb("key", gen_key());
  long len = g::coin(60) ? g::range(0, 200) : g::range(0, 1025);
  if (g::coin(30))
    len = 64 * g::range(0, 8) + g::oneof<long>({55, 56, 57, 63, 0, 1, 119, 120}) % 64;
  bool longmsg = g::coin(6);
  if (longmsg)
  {
    // the inner hash sees 64 + len - pos bytes: lengths around the points where its bit count needs a 3rd / 4th
    // byte (2^16, 2^24 bits), and arbitrary lengths in between
    long k2 = g::range(0, 100);
    len = k2 < 35 ? 8192 - 64 + g::range(-70, 71) : k2 < 55 ? 65536 - 64 + g::range(-70, 71) : k2 < 95 ? g::range(1025, 200001) : (1 << 21) - 64 + g::range(-2, 3);
  }
  c.seti("len", len);
  // start position of the hashed range ("from the current file position to the end"): mostly small, sometimes
  // beyond one and two bytes' worth (the tool itself only ever starts at 48)
  c.seti("pos", g::coin(40) ? 0 : g::coin(75) ? g::range(0, 65) : g::coin(50) ? g::oneof<long>({255, 256, 257, 304, 511, 512, 1000, 65535, 65536, 65584}) : g::range(65, 70000));
  int refill = (int)g::oneof<long>({1, 2, 3, 5, 8, 16});
  c.seti("refill", std::min(refill, wapi::refill_capacity()));
  c.set("pseed", std::to_string(g::u64()));
  c.seti("pstyle", 0);
  c.seti("bit", g::range(0, 256));
  if (c.get("kind") == "msg" && g::coin(14))
    c.seti("how", g::oneof<long>({1, 3, 3})); // the stream is a pipe; with `pos` bytes of it (a header) already read through stdio
  c.seti("allbits", g::coin(10) && !longmsg ? 1 : 0);
  if (c.get("kind") == "write")
  {
    c.seti("pos", std::min<long>(c.geti("pos"), 64)); // writeFileHmac takes its two marks as bytes
    c.seti("hash_mark", g::coin(50) ? 48 : g::range(0, 100));
    c.seti("write_mark", g::coin(50) ? 10 : g::range(0, 60));
  }
  return c;
}

static void fixed_c08(Ctx &ctx)
{
  const Prop *p = find_prop("C08");
  uint64_t i = 0;
  if (ctx.mode == "big")
  {
    // (hmode, length): 2^29-64 is the first message whose inner hash input (64 + length bytes) has 2^32 bits
    std::vector<std::pair<int, uint64_t>> jobs = {{1, (1ull << 29) - 64}, {1, (1ull << 29) - 65}, {0, (1ull << 29) - 64}, {1, (1ull << 29) + 1000}};
    if (ctx.thorough())
      for (int hm : {0, 1, 2})
        for (long d : {-64L, -9L, -8L, 0L, 56L})
          jobs.push_back({hm, (uint64_t)((1ll << 29) + d)});
    if (ctx.thorough())
      jobs.push_back({1, (1ull << 32) + 3});
    for (auto &j : jobs)
    {
      if (!mine(ctx, i++))
        continue;
      Case c;
      c.set("kind", "big");
      c.seti("hmode", j.first);
      c.set("len", std::to_string(j.second));
      c.seti("pat", 4711);
      c.seti("pos", 0);
      c.setb("key", expand(j.second + (uint64_t)j.first, 16, 0));
      eval_fixed(*p, ctx, c);
    }
    return;
  }
  // every message length 0..200 (all residues of the inner hash input mod 64) x 3 hashes, all one-bit neighbours
  for (int hm = 0; hm < 3; hm++)
    for (int len = 0; len <= 200; len++)
    {
      if (!mine(ctx, i++))
        continue;
      Case c;
      c.set("kind", "msg");
      c.seti("hmode", hm);
      c.setb("key", expand(len + 1, 16, 0));
      c.seti("len", len);
      c.seti("pos", len % 3 == 0 ? 48 : 0);
      c.seti("refill", 1 + len % 3);
      c.set("pseed", std::to_string(len * 13 + hm));
      c.seti("pstyle", 0);
      c.seti("allbits", len % 8 == 0);
      eval_fixed(*p, ctx, c);
    }
  // bit-count thresholds of the inner hash (64 + len bytes): 2^16 and 2^24 bits
  for (int hm = 0; hm < 3; hm++)
    for (long len : {8127L, 8128L, 8129L, 8192L, 65471L, 65472L, 65473L, 70000L, 2097087L, 2097088L, 2097089L})
    {
      if (!mine(ctx, i++))
        continue;
      Case c;
      c.set("kind", "msg");
      c.seti("hmode", hm);
      c.setb("key", expand(len + 1, 16, 0));
      c.seti("len", len);
      c.seti("pos", 0);
      c.seti("refill", std::min(16, wapi::refill_capacity()));
      c.set("pseed", std::to_string(len * 13 + hm));
      c.seti("pstyle", 0);
      c.seti("allbits", 0);
      eval_fixed(*p, ctx, c);
    }
  ctx.stats.info["exhaustive_message_lengths"] = "0..200 x 3 hashes";
}

static PropReg reg({"C08", gen_c08, run_c08, fixed_c08, 32000, 1000000, 100, "sched"});
