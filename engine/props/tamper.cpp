#include "../tamper.h"

static std::vector<std::string> split_(const std::string &s, char c)
{
  std::vector<std::string> r;
  size_t i = 0;
  while (i <= s.size())
  {
    size_t e = s.find(c, i);
    if (e == std::string::npos)
      e = s.size();
    r.push_back(s.substr(i, e - i));
    i = e + 1;
  }
  return r;
}

bytes apply_edits(const bytes &file, const std::string &edits)
{
  bytes f = file;
  for (auto &e : split_(edits, ';'))
  {
    if (e.empty())
      continue;
    auto p = split_(e, ':');
    char op = p[0][0];
    auto num = [&](size_t i) -> size_t { return i < p.size() ? (size_t)strtoull(p[i].c_str(), NULL, 10) : 0; };
    switch (op)
    {
    case 'X':
      if (num(1) < f.size())
        f[num(1)] ^= (uint8_t)num(2);
      break;
    case 'S':
    {
      bytes d = unhex(p.size() > 2 ? p[2] : "");
      size_t off = num(1);
      if (off + d.size() > f.size())
        f.resize(off + d.size(), 0);
      memcpy(f.data() + off, d.data(), d.size());
      break;
    }
    case 'I':
    {
      bytes d = unhex(p.size() > 2 ? p[2] : "");
      size_t off = std::min(num(1), f.size());
      f.insert(f.begin() + off, d.begin(), d.end());
      break;
    }
    case 'D':
    {
      size_t off = std::min(num(1), f.size());
      size_t len = std::min(num(2), f.size() - off);
      f.erase(f.begin() + off, f.begin() + off + len);
      break;
    }
    case 'T':
      if (num(1) < f.size())
        f.resize(num(1));
      break;
    case 'A':
    {
      bytes d = unhex(p.size() > 1 ? p[1] : "");
      f.insert(f.end(), d.begin(), d.end());
      break;
    }
    case 'W':
    {
      size_t a = num(1), b = num(2), len = num(3);
      if (a + len <= f.size() && b + len <= f.size() && (a + len <= b || b + len <= a))
        for (size_t i = 0; i < len; i++)
          std::swap(f[a + i], f[b + i]);
      break;
    }
    }
  }
  return f;
}

static bytes run_batch(const std::vector<bytes> &files, const std::vector<bytes> &keys, size_t lo, size_t hi, int T, int chunk, int refill)
{
  Ser s;
  for (size_t i = lo; i < hi; i++)
  {
    const bytes &key = keys.size() == 1 ? keys[0] : keys[i];
    wapi::PipeCfg pc;
    pc.T = T;
    pc.chunk = chunk;
    pc.refill = refill;
    wapi::OpOut v = wapi::verify(files[i], key, pc, true);
    wapi::OpOut d = wapi::decrypt(files[i], key, pc);
    s.u8(v.ret);
    s.u8(d.ret);
    s.u32(d.out_writes);
    s.u64(d.out_written_bytes);
    s.u32(v.out_writes);
    s.u32(v.in_writes);
    s.u32(d.in_writes);
    s.u8(v.in_same);
    s.u8(d.in_same);
    s.blob(d.out.size() > (1u << 22) ? bytes(d.out.begin(), d.out.begin() + (1u << 22)) : d.out);
  }
  return s.b;
}
static void decode_batch(const bytes &payload, std::vector<DV> &out, size_t lo, size_t hi)
{
  De d(payload);
  for (size_t i = lo; i < hi; i++)
  {
    DV &x = out[i];
    x.evaluated = true;
    x.vret = d.u8();
    x.dret = d.u8();
    x.d_writes = d.u32();
    x.d_written_bytes = d.u64();
    x.v_out_writes = d.u32();
    x.v_in_writes = d.u32();
    x.d_in_writes = d.u32();
    x.v_in_same = d.u8();
    x.d_in_same = d.u8();
    x.dout = d.blob();
    if (d.bad)
    {
      x.st = CH_EXIT;
      x.detail = "harness: truncated payload";
    }
  }
}

std::vector<DV> batch_dv(const std::vector<bytes> &files, const std::vector<bytes> &keys, int T, int chunk, int refill, std::string *batch_only)
{
  std::vector<DV> out(files.size());
  const size_t B = 256;
  for (size_t lo = 0; lo < files.size(); lo += B)
  {
    size_t hi = std::min(files.size(), lo + B);
    ChildResult r = run_in_child([&]() { return run_batch(files, keys, lo, hi, T, chunk, refill); }, 120);
    if (r.status == CH_OK)
    {
      decode_batch(r.payload, out, lo, hi);
      continue;
    }
    // attribute: one child per file
    for (size_t i = lo; i < hi; i++)
    {
      ChildResult q = run_in_child([&]() { return run_batch(files, keys, i, i + 1, T, chunk, refill); }, 60);
      if (q.status == CH_TIMEOUT && wapi::has_scheduler())
      {
        // one file, canonical schedule, deterministic scheduler: milliseconds of work. No result within 60 s means a
        // loop that reaches neither a schedule point nor a stream callback (the step and callback bounds cannot
        // fire). Once more with three times the time; two timeouts in a row are reported as an endless loop.
        ChildResult q2 = run_in_child([&]() { return run_batch(files, keys, i, i + 1, T, chunk, refill); }, 180);
        if (q2.status == CH_TIMEOUT)
        {
          out[i].evaluated = true;
          out[i].st = CH_STEPLIMIT;
          out[i].detail = "endless loop: no result within 60 s and again within 180 s under the deterministic scheduler (a file of this size takes milliseconds; neither a schedule point nor a stream callback was reached in the meantime)";
          return out;
        }
        q = q2;
      }
      if (q.status == CH_OK)
        decode_batch(q.payload, out, i, i + 1);
      else
      {
        out[i].evaluated = true;
        out[i].st = q.status;
        out[i].detail = q.describe();
        return out; // the first file that kills the child is the finding; the rest stays unevaluated
      }
    }
    // every file of the batch got through alone, the batch as a whole did not
    if (batch_only && batch_only->empty())
      *batch_only = r.describe();
  }
  return out;
}

bool ref_authentic(const bytes &file, const bytes &key)
{
  static const uint8_t MAGIC[8] = {0xC3, 0xA5, 0xC3, 0xA5, 0xC3, 0xA5, 0xC3, 0xA5};
  if (file.size() < 74 || memcmp(file.data(), MAGIC, 8) != 0)
    return false;
  if (file[8] > 4 || file[9] > 2)
    return false;
  int hl = ref::Hash::hlen(file[9]);
  bytes tag = ref::hmac(file[9], key, file.data() + 48, file.size() - 48);
  return memcmp(tag.data(), file.data() + 10, hl) == 0;
}

std::vector<size_t> diff_offsets(const bytes &a, const bytes &b)
{
  std::vector<size_t> r;
  for (size_t i = 0; i < a.size() && i < b.size(); i++)
    if (a[i] != b[i])
      r.push_back(i);
  return r;
}

bytes base_file(const EncCase &e, bool toolbase)
{
  if (!toolbase)
    return ref::encrypt_file(e.P, fparams(e));
  ChildResult r = run_in_child([&]() { return wapi::encrypt(e.P, e.key, e.seed, e.cmode, e.hmode, pcfg(e, wapi::SchedSpec())).ser(); });
  if (r.status != CH_OK)
    return bytes();
  wapi::OpOut o = wapi::OpOut::de(r.payload);
  if (!o.ret)
    return bytes();
  return o.out;
}

FaultRun run_faulted(bool is_decrypt, const bytes &file, const bytes &key, const EncCase &e, long n, long read_fail_at, bool read_fail_once)
{
  FaultRun fr;
  wapi::PipeCfg pc = pcfg(e, wapi::SchedSpec());
  pc.fail_new = n;
  pc.in_fail_at = read_fail_at;
  pc.in_fail_once = read_fail_once;
  ChildResult r = run_in_child([&]() { return (is_decrypt ? wapi::decrypt(file, key, pc) : wapi::verify(file, key, pc, true)).ser(); }, 60);
  fr.st = r.status;
  if (r.status == CH_OK)
    fr.o = wapi::OpOut::de(r.payload);
  else
    fr.detail = r.describe();
  return fr;
}
