// C12 verify accepts exactly what decrypt accepts; writes nothing; inputs stay intact.
#include "../tamper.h"
#include "../spawn.h"
#include <set>

static const uint8_t MAGIC12[8] = {0xC3, 0xA5, 0xC3, 0xA5, 0xC3, 0xA5, 0xC3, 0xA5};

// the production program on real files: -v and -d agree, -v creates nothing, no operation (including -e with
// its default output name, for input paths of every length class) modifies its input file
static std::set<std::string> list_dir(const std::string &d)
{
  std::set<std::string> r;
  if (DIR *dir = opendir(d.c_str()))
  {
    while (struct dirent *e = readdir(dir))
      r.insert(e->d_name);
    closedir(dir);
  }
  return r;
}
static Verdict run_c12_cli(const Case &c)
{
  Verdict v;
  const char *b1 = getenv("WENCRY_CLI");
  if (!b1)
  {
    Verdict f = Verdict::fail("WENCRY_CLI not set");
    f.infra = true;
    return f;
  }
  const char *sroot = getenv("VERIF_SCRATCH");
  std::string root = sroot ? sroot : "/verif/.scratch";
  mkdir(root.c_str(), 0755);
  static uint64_t seq = 0;
  std::string dir = root + "/c12-" + std::to_string(getpid()) + "-" + std::to_string(seq++);
  mkdir(dir.c_str(), 0755);
  struct Cleaner
  {
    std::string d;
    ~Cleaner() { rm_rf(d); }
  } cleaner{dir};
  std::string op = c.get("op", "e");
  size_t plen = (size_t)c.geti("plen", 100), pathlen = (size_t)c.geti("pathlen", 0);
  bytes P = expand((uint64_t)c.geti("pseed", 1), plen, 0);
  bytes key = expand((uint64_t)c.geti("pseed", 1) + 17, 16, 0);
  ref::FileParams fp;
  fp.key = key;
  fp.seed = bytes{'c', '1', '2'};
  fp.cmode = (int)c.geti("cmode", 1);
  fp.hmode = (int)c.geti("hmode", 0);
  fp.T = 4;
  fp.chunk = 1u << 24;
  bytes in_bytes = P;
  bool authentic = true;
  if (op != "e")
  {
    in_bytes = ref::encrypt_file(P, fp);
    long t = c.geti("tamper", 0);
    if (t == 1)
    {
      in_bytes[in_bytes.size() - 3] ^= 0x20;
      authentic = false;
    }
    else if (t == 2)
    {
      in_bytes.resize(in_bytes.size() - 5);
      authentic = false;
    }
  }
  std::string name = "f.bin", path = name;
  if (pathlen > name.size())
  {
    std::string p;
    while (p.size() + name.size() + 2 <= pathlen)
      p += "./";
    if (p.size() + name.size() < pathlen && !p.empty())
      p.insert(p.size() - 1, "/");
    path = p + name;
  }
  write_file(dir + "/" + name, std::string(in_bytes.begin(), in_bytes.end()));
  std::string ks = ref::b64_encode(key.data(), 16);
  if (c.geti("wrongkey"))
  {
    bytes w = key;
    w[9] ^= 1;
    ks = ref::b64_encode(w.data(), 16);
    authentic = false;
  }
  v.nontrivial = true;
  v.classes.push_back("cli/" + op);
  v.classes.push_back(pathlen ? "long_or_exact_path" : "short_path");
  v.distinct = fnv64("cli" + c.text());
  auto bad = [&](const std::string &m) {
    Verdict f = Verdict::fail(m + " [production CLI, op -" + op + ", input path of " + std::to_string(path.size()) + " characters, " + std::to_string(in_bytes.size()) + "-byte input]");
    f.nontrivial = true;
    f.classes = v.classes;
    return f;
  };
  auto unchanged = [&]() {
    std::string now = read_file(dir + "/" + name);
    return now.size() == in_bytes.size() && memcmp(now.data(), in_bytes.data(), now.size()) == 0;
  };
  if (op == "e")
  {
    std::vector<std::string> av = {"-e", "-i", path, "-k", ks, "-n"};
    if (c.geti("with_o"))
    {
      av.push_back("-o");
      av.push_back("o.wenc");
    }
    RunRes r = spawn(b1, av, dir);
    if (r.timed_out)
      return v;
    if (!unchanged())
      return bad("encryption (exit " + std::to_string(r.code) + ") modified its input file");
    return v;
  }
  // mode options on the command line of -v / -d (the README shows `-d ... --cmode 2`): the file's own header decides,
  // and whatever the options mean to one of the two operations they must mean to the other
  std::vector<std::string> extra;
  if (c.geti("optc", -1) >= 0)
  {
    extra.push_back("--cmode");
    extra.push_back(std::to_string(c.geti("optc")));
  }
  if (c.geti("opth", -1) >= 0)
  {
    extra.push_back("--hmode");
    extra.push_back(std::to_string(c.geti("opth")));
  }
  if (!extra.empty())
    v.classes.push_back("cli_mode_options_given");
  auto with_extra = [&](std::vector<std::string> av) {
    av.insert(av.end(), extra.begin(), extra.end());
    return av;
  };
  std::set<std::string> before = list_dir(dir);
  RunRes rv = spawn(b1, with_extra({"-v", "-i", path, "-k", ks, "-n"}), dir);
  if (rv.timed_out)
    return v;
  std::set<std::string> after = list_dir(dir);
  after.erase(".stdout");
  after.erase(".stderr");
  before.erase(".stdout");
  before.erase(".stderr");
  if (after != before)
    return bad("verification created or removed a file in its directory");
  if (!unchanged())
    return bad("verification modified its input file");
  RunRes rd = spawn(b1, with_extra({"-d", "-i", path, "-o", "dec.out", "-k", ks, "-n"}), dir);
  if (rd.timed_out)
    return v;
  if (!unchanged())
    return bad("decryption modified its input file");
  bool vok = !rv.signaled && rv.code == 0, dok = !rd.signaled && rd.code == 0;
  if (rv.signaled || rd.signaled)
    return v; // crashes are C17's / C11's verdict
  if (vok != dok)
    return bad(std::string("-v ") + (vok ? "succeeds" : "fails") + " but -d " + (dok ? "succeeds" : "fails") + " on the same file and key");
  v.classes.push_back(vok ? "cli_accepts" : "cli_rejects");
  (void)authentic;
  return v;
}

static Verdict run_c12(const Case &c)
{
  if (c.get("kind") == "cli")
    return run_c12_cli(c);
  Verdict v;
  EncCase e = enc_from(c);
  std::string fk = c.get("filekind", "valid");
  bytes file;
  if (fk == "raw")
  {
    file = expand((uint64_t)strtoull(c.get("rawseed", "0").c_str(), NULL, 10), (size_t)c.geti("rawlen"), 0);
    if (c.geti("magic"))
      for (size_t i = 0; i < 8 && i < file.size(); i++)
        file[i] = MAGIC12[i];
  }
  else
  {
    file = ref::encrypt_file(e.P, fparams(e));
    if (fk == "edited")
    {
      file = apply_edits(file, c.get("edits"));
      if (c.geti("retag") && file.size() >= 48)
      {
        // the holder of the key re-tags the altered file: it is authentic again although no encryption wrote it
        // (a body cut inside the IV table, not a whole number of blocks, with blocks dropped or added ...).
        // "For every file and key": verify and decrypt must still agree on it.
        int hm = file[9] <= 2 ? file[9] : e.hmode;
        bytes t = ref::hmac(hm, e.key, file.data() + 48, file.size() - 48);
        for (size_t i = 0; i < t.size() && 10 + i < 48; i++)
          file[10 + i] = t[i];
        for (size_t i = 10 + t.size(); i < 48; i++)
          file[i] = 0;
      }
    }
  }
  bytes key = c.get("keykind", "right") == "right" ? e.key : c.getb("wrongkey");
  key.resize(16);
  v.classes.push_back("file=" + fk);
  v.classes.push_back("key=" + c.get("keykind", "right"));
  bool magic_ok = file.size() >= 8 && memcmp(file.data(), MAGIC12, 8) == 0;
  v.nontrivial = magic_ok;
  v.distinct = fnv64(file.data(), file.size(), fnv64(hex(key)));
  auto bad = [&](const std::string &m) {
    Verdict f = Verdict::fail(m + " [" + fk + " file of " + std::to_string(file.size()) + " bytes, " + c.get("keykind", "right") + " key, T=" + std::to_string(e.T) + "]");
    f.nontrivial = v.nontrivial;
    f.classes = v.classes;
    f.distinct = v.distinct;
    return f;
  };
  // verification and decryption each in their own child, on their own copy
  wapi::PipeCfg pc = pcfg(e, wapi::SchedSpec());
  // the caller's Settings may name a cipher / hash mode (the CLI's --cmode / --hmode on a -d / -v command line)
  pc.hint_c = (int)c.geti("hint_c", -1);
  pc.hint_h = (int)c.geti("hint_h", -1);
  if (pc.hint_c >= 0 || pc.hint_h >= 0)
    v.classes.push_back("settings_name_a_mode");
  if (c.geti("retag"))
    v.classes.push_back("altered_then_retagged_with_the_right_key");
  if (pc.in_noseek)
    v.classes.push_back("input_is_a_pipe");
  if (pc.fsize_hint == 0)
    v.classes.push_back("size_passed_as_0");
  // "for every file and key" includes files met after other files: half of the cases first run verify or
  // decrypt of the intact base file (right key) in the same process, then the operation under test
  int warm = (int)c.geti("warm", 0);
  bytes intact = ref::encrypt_file(e.P, fparams(e));
  auto warmup = [&]() {
    if (warm == 1)
      wapi::verify(intact, e.key, pc, false);
    else if (warm == 2)
      wapi::decrypt(intact, e.key, pc);
    else if (warm >= 3)
    {
      // ... or an operation that was REFUSED: decrypt / verify of the intact file with a wrong key, decrypt of bytes
      // that are no wencry file (whatever a refused operation sets up before it gives up must not change what
      // verify and decrypt say about the next file)
      bytes wk = e.key;
      wk[11] ^= 0x20;
      if (warm == 3)
        wapi::decrypt(intact, wk, pc);
      else if (warm == 4)
        wapi::verify(intact, wk, pc, false);
      else
        wapi::decrypt(expand(0xbadf00d, 90, 0), e.key, pc);
    }
  };
  if (warm)
    v.classes.push_back(warm <= 2 ? "after_warmup_on_intact_file" : "after_a_refused_operation");
  ChildResult rv = run_in_child([&]() { warmup(); return wapi::verify(file, key, pc, true).ser(); });
  ChildResult rd = run_in_child([&]() { warmup(); return wapi::decrypt(file, key, pc).ser(); });
  if (rv.status == CH_OK && rd.status == CH_TIMEOUT && wapi::has_scheduler())
  {
    // verification has returned, decryption gave no result within 60 s. Under the deterministic scheduler such a case
    // takes milliseconds; a loop that reaches neither a schedule point nor a stream callback is invisible to the step
    // and callback bounds. Once more with three times the time: two timeouts in a row are an endless loop - and if
    // verification accepted the file, "verification succeeds exactly when decryption succeeds" is broken.
    ChildResult rd2 = run_in_child([&]() { warmup(); return wapi::decrypt(file, key, pc).ser(); }, 180);
    if (rd2.status == CH_TIMEOUT)
    {
      wapi::OpOut ov0 = wapi::OpOut::de(rv.payload);
      if (ov0.ret)
      {
        Verdict f = bad("verification succeeds but decryption of the same file never returns (no result within 60 s and again within 180 s under the deterministic scheduler; a case of this size takes milliseconds)");
        f.slow = true;
        return f;
      }
      v.classes.push_back("decrypt_hangs_verify_rejects_see_C04");
      v.nontrivial = false;
      return v;
    }
    rd = rd2;
  }
  if (rv.status == CH_TIMEOUT || rd.status == CH_TIMEOUT)
  {
    v.classes.push_back("watchdog_inconclusive");
    v.nontrivial = false;
    return v;
  }
  if (rv.status != CH_OK)
    return bad("verification did not terminate normally: " + rv.describe());
  if (rd.status != CH_OK)
  {
    wapi::OpOut ov = wapi::OpOut::de(rv.payload);
    return bad(std::string("verification ") + (ov.ret ? "succeeds" : "fails") + " but decryption of the same file does not terminate normally: " + rd.describe());
  }
  wapi::OpOut ov = wapi::OpOut::de(rv.payload), od = wapi::OpOut::de(rd.payload);
  v.classes.push_back(ov.ret ? "verify_accepts" : "verify_rejects");
  if (ov.ret != od.ret)
    return bad(std::string("verification ") + (ov.ret ? "succeeds" : "fails") + " but decryption " + (od.ret ? "succeeds" : "fails"));
  if (ov.out_writes || !ov.out.empty())
    return bad("verification wrote " + std::to_string(ov.out_written_bytes) + " bytes to the output stream it was given");
  if (!ov.in_same || ov.in_writes)
    return bad("verification modified its input file");
  if (!od.in_same || od.in_writes)
    return bad("decryption modified its input file");
  if (c.geti("also_encrypt"))
  {
    ChildResult re = run_in_child([&]() { return wapi::encrypt(e.P, e.key, e.seed, e.cmode, e.hmode, pc).ser(); });
    if (re.status == CH_OK)
    {
      wapi::OpOut oe = wapi::OpOut::de(re.payload);
      if (!oe.in_same || oe.in_writes)
        return bad("encryption modified its input file");
      v.classes.push_back("encrypt_input_checked");
    }
    else if (re.status != CH_TIMEOUT)
      return bad("encryption did not terminate normally: " + re.describe());
  }
  return v;
}

static Case gen_c12()
{
  Case c;
  GenOpts o;
  o.maxT = 6;
  o.chunks = {16, 32, 64};
  o.max_len = 500;
  o.schedules = false;
  gen_enc(c, o);
  long k = g::range(0, 100);
  size_t plen = (size_t)c.geti("plen");
  int T = (int)c.geti("T");
  int hl = ref::Hash::hlen((int)c.geti("hmode"));
  size_t flen = 48 + 20 * (size_t)T + 16 * (plen / 16 + 1);
  if (k < 40)
    c.set("filekind", "valid");
  else if (k < 85)
  {
    c.set("filekind", "edited");
    std::string s;
    switch (g::range(0, 11))
    {
    case 9:
    case 10: // body / IV bit (tag, length and header unchanged)
      s = "X:" + std::to_string(g::range(74, (long)flen)) + ":" + std::to_string(1 << g::range(0, 8));
      break;
    case 0:
      s = "X:" + std::to_string(g::range(0, (long)flen)) + ":" + std::to_string(1 << g::range(0, 8));
      break;
    case 1:
      s = "T:" + std::to_string(g::range(0, (long)flen));
      break;
    case 2:
      s = "A:" + hex(g::raw((size_t)g::oneof<long>({1, 16, 17})));
      break;
    case 3: // mode bytes, in and out of range
      s = "S:" + std::to_string(8 + g::range(0, 2)) + ":" + hex(bytes{(uint8_t)g::oneof<long>({0, 1, 2, 3, 4, 5, 6, 99, 127, 128, 255})});
      break;
    case 4: // tag padding (carries no information)
      s = "S:" + std::to_string(10 + hl + g::range(0, 38 - hl)) + ":" + hex(g::raw(1));
      break;
    case 5:
      s = "D:" + std::to_string(g::range(48, (long)flen)) + ":16";
      break;
    case 6:
      s = "I:" + std::to_string(g::range(48, (long)flen + 1)) + ":" + hex(g::raw(16));
      break;
    case 7: // truncate to a body that is an exact chunk multiple / header only
      s = "T:" + std::to_string(48 + 20 * T + (size_t)c.geti("chunk") * (size_t)g::range(0, 3));
      break;
    default:
      s = "S:" + std::to_string(g::range(0, (long)flen)) + ":" + hex(g::raw((size_t)g::range(1, 8)));
    }
    // structural edits of the part the tag covers, then a fresh tag (right key): authentic but not written by wencry
    if (g::coin(30))
    {
      long kind = g::range(0, 7);
      long ivend = 48 + 20 * T;
      if (kind == 0)
        s = "T:" + std::to_string(g::range(48, ivend + 1)); // cut inside the IV table (48 = nothing left to hash)
      else if (kind == 1)
        s = "T:" + std::to_string(g::range(ivend, (long)flen)); // cut inside the body, any alignment
      else if (kind == 2)
        s = "A:" + hex(g::raw((size_t)g::range(1, 40))); // bytes appended, any alignment
      else if (kind == 3)
        s = "D:" + std::to_string(g::range(ivend, (long)flen - 15)) + ":16"; // a block dropped
      else if (kind == 6) // the IV the streams start from set to all ones / almost all ones (a counter that wraps at once)
        s = "S:48:" + std::string(g::coin(50) ? "ffffffffffffffffffffffffffffffff" : "fffffffffffffffffffffffffffffffe");
      else if (kind == 4)
        s = "X:" + std::to_string(g::range(48, (long)flen)) + ":" + std::to_string(1 << g::range(0, 8)); // a bit in the IVs / body
      else
        s = "T:" + std::to_string(ivend + (long)c.geti("chunk") * g::range(0, 3)); // body an exact chunk multiple / empty
      c.seti("retag", 1);
    }
    c.set("edits", s);
  }
  else
  {
    c.set("filekind", "raw");
    c.seti("rawlen", g::coin(50) ? g::range(0, 100) : g::range(0, 400));
    c.set("rawseed", std::to_string(g::u64()));
    c.seti("magic", g::coin(70) ? 1 : 0);
  }
  if (g::coin(25))
  {
    c.set("keykind", "wrong");
    c.setb("wrongkey", g::raw(16));
  }
  else
    c.set("keykind", "right");
  c.seti("also_encrypt", g::coin(15) ? 1 : 0);
  if (g::coin(5))
    c.seti("pipe_in", 1); // both operations read the file from a stream that cannot seek
  if (g::coin(20))
  {
    if (g::coin(70))
      c.seti("hint_c", g::range(0, 5));
    if (g::coin(50))
      c.seti("hint_h", g::range(0, 3));
  }
  c.seti("warm", g::coin(55) ? g::range(1, 6) : 0);
  return c;
}

static void fixed_c12(Ctx &ctx)
{
  const Prop *p = find_prop("C12");
  uint64_t i = 0;
  if (ctx.mode == "cli")
  {
    std::vector<long> lens = {0, 100, 120, 121, 122, 123, 124, 125, 126, 127, 128, 129, 130, 200, 511, 512, 513, 1023, 1024, 1025};
    for (long L = 244; L <= 262; L++)
      lens.push_back(L);
    if (ctx.thorough())
      for (long L = 131; L <= 243; L += 3)
        lens.push_back(L);
    for (long L : lens)
      for (const char *op : {"e", "v"})
        for (int variant = 0; variant < (std::string(op) == "e" ? 2 : 6); variant++)
        {
          if (!mine(ctx, i++))
            continue;
          Case c;
          c.set("kind", "cli");
          c.set("op", op);
          c.seti("pathlen", L);
          c.seti("plen", 1255);
          c.seti("pseed", L * 3 + variant);
          c.seti("cmode", (L + variant) % 5);
          c.seti("hmode", L % 3);
          if (std::string(op) == "e")
            c.seti("with_o", variant);
          else
          {
            c.seti("tamper", variant == 1 ? 1 + (L % 2) : 0);
            c.seti("wrongkey", variant == 2);
            // variants 3-5: a valid file, right key, and mode options that differ from / equal the file's modes
            if (variant == 3 || variant == 5)
              c.seti("optc", (c.geti("cmode") + (variant == 3 ? 1 + L % 4 : 0)) % 5);
            if (variant == 4 || variant == 5)
              c.seti("opth", (c.geti("hmode") + (variant == 4 ? 1 + L % 2 : 0)) % 3);
          }
          eval_fixed(*p, ctx, c);
        }
    ctx.stats.info["cli_part"] = "production binary on real files: input paths of 0/100/120-130/244-262/511-513/1023-1025 characters; -e (default and explicit output), -v then -d on valid, tampered and wrong-key files";
    return;
  }
  // valid files whose ciphertext body is an exact multiple of the chunk size, all modes (verify accepts: decrypt must, too)
  for (int cm = 0; cm < 5; cm++)
    for (int T : {1, 2, 3})
      for (int q : {1, 2, 4})
      {
        if (!mine(ctx, i++))
          continue;
        Case c;
        int chunk = 32;
        c.set("filekind", "valid");
        c.seti("plen", q * chunk - 1 - (cm % 3));
        c.set("pseed", std::to_string(i));
        c.seti("pstyle", 0);
        c.setb("key", expand(i, 16, 0));
        c.setb("seed", bytes{'x'});
        c.seti("cmode", cm);
        c.seti("hmode", (int)(i % 3));
        c.seti("T", T);
        c.seti("chunk", chunk);
        c.set("keykind", "right");
        c.seti("also_encrypt", 1);
        eval_fixed(*p, ctx, c);
      }
}

static PropReg reg({"C12", gen_c12, run_c12, fixed_c12, 24000, 600000, 100, "sched"});
